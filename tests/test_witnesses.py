"""Plain pytest (no explorer): every recorded witness of a seeded change / reverted fix is replayed against the current
tree; on the unchanged (repaired) tree every one of them must pass, i.e. the recorded failure is gone.
Run: cd /verif && /venv/bin/python -m pytest -q tests/test_witnesses.py"""
import glob
import json
import os
import subprocess
import sys

import pytest

VERIF = os.path.dirname(os.path.dirname(os.path.abspath(__file__)))
FILES = sorted(glob.glob(os.path.join(VERIF, "mutants", "replays", "*", "*.json")))


@pytest.mark.parametrize("path", FILES, ids=[os.path.relpath(f, VERIF) for f in FILES])
def test_witness_passes_on_current_tree(path):
    prop = json.load(open(path))["property"]
    p = subprocess.run([sys.executable, "-m", "pv.cli", prop, "--replay", path], cwd=VERIF, capture_output=True, text=True)
    assert p.returncode == 0, p.stdout[-800:]
