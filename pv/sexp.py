"""Independent S-expression reader / printer (reference, trusted; shares no code with the library).

Grammar: '(' and ')' are tokens; ';' starts a comment that runs to the end of the line (LF or CR);
any run of other non-blank characters is an atom; atoms are lower-cased.
"""
from typing import List, Union

Tree = Union[str, List["Tree"]]

_BLANK = " \t\r\n\f\v"


class SexpError(Exception):
    pass


def tokens(text: str) -> List[str]:
    out: List[str] = []
    i, n = 0, len(text)
    cur = []
    while i < n:
        ch = text[i]
        if ch == ";":
            if cur:
                out.append("".join(cur)); cur = []
            while i < n and text[i] not in "\n":
                i += 1
            continue
        if ch in "()":
            if cur:
                out.append("".join(cur)); cur = []
            out.append(ch)
        elif ch in _BLANK:
            if cur:
                out.append("".join(cur)); cur = []
        else:
            cur.append(ch.lower())
        i += 1
    if cur:
        out.append("".join(cur))
    return out


def _read(toks: List[str], pos: int):
    if pos >= len(toks):
        raise SexpError("unexpected end of input")
    t = toks[pos]
    if t == "(":
        lst = []
        pos += 1
        while True:
            if pos >= len(toks):
                raise SexpError("unbalanced: missing ')'")
            if toks[pos] == ")":
                return lst, pos + 1
            item, pos = _read(toks, pos)
            lst.append(item)
    if t == ")":
        raise SexpError("unexpected ')'")
    return t, pos + 1


def read(text: str) -> Tree:
    """Exactly one top-level form; anything after it is an error."""
    toks = tokens(text)
    tree, pos = _read(toks, 0)
    if pos != len(toks):
        raise SexpError("trailing tokens after the top-level form")
    return tree


def read_all(text: str) -> List[Tree]:
    toks = tokens(text)
    pos, forms = 0, []
    while pos < len(toks):
        tree, pos = _read(toks, pos)
        forms.append(tree)
    return forms


def dumps(tree: Tree) -> str:
    if isinstance(tree, str):
        return tree
    return "(" + " ".join(dumps(t) for t in tree) + ")"


def freeze(tree: Tree):
    if isinstance(tree, str):
        return tree
    return tuple(freeze(t) for t in tree)


def thaw(tree):
    if isinstance(tree, str):
        return tree
    return [thaw(t) for t in tree]
