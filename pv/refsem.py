"""Reference PDDL 2.1 level-2 semantics (trusted; boring on purpose; shares no code with the library).

Everything works on the nested-list trees produced by pv.sexp.  Numbers are exact Fractions.
See DESIGN.md Appendix A for the one-page definition this module implements.
"""
from fractions import Fraction
from itertools import product, permutations
from typing import Dict, List, Tuple, Optional, Iterable

ARITH = ("+", "-", "*", "/")
COMPARE = ("=", "<=", ">=", "<", ">")
ASSIGN_OPS = ("assign", "increase", "decrease", "scale-up", "scale-down")
DEFAULT_EPS = Fraction(1, 10000)


class RefError(Exception):
    """The reference cannot give the text a meaning (ill-formed or outside its grammar)."""


class RefUndefined(Exception):
    """Meaning undefined in this state: an undefined fluent is read, or division by zero."""


# ------------------------------------------------------------------------------------------------
# typed lists


def parse_typed_list(items, default="object") -> List[Tuple[str, str]]:
    out, pending = [], []
    i = 0
    while i < len(items):
        it = items[i]
        if it == "-":
            if i + 1 >= len(items):
                raise RefError("dangling '-' in typed list")
            ty = items[i + 1]
            if isinstance(ty, list):
                if ty and ty[0] == "either":
                    ty = ("either",) + tuple(ty[1:])
                else:
                    raise RefError("bad type expression")
            for n in pending:
                out.append((n, ty))
            pending = []
            i += 2
            continue
        if isinstance(it, list):
            raise RefError("list inside typed list")
        pending.append(it)
        i += 1
    for n in pending:
        out.append((n, default))
    return out


def is_number(tok) -> bool:
    if not isinstance(tok, str):
        return False
    try:
        Fraction(tok)
        return True
    except (ValueError, ZeroDivisionError):
        return False


def num(tok: str) -> Fraction:
    try:
        return Fraction(tok)
    except (ValueError, ZeroDivisionError):
        raise RefError(f"not a numeral: {tok!r}")


# ------------------------------------------------------------------------------------------------
# domain / problem


class RefAction:
    def __init__(self, name, params, pre, eff):
        self.name = name
        self.params: List[Tuple[str, str]] = params
        self.pre = pre
        self.eff = eff


class RefDomain:
    def __init__(self):
        self.name = None
        self.requirements: List[str] = []
        self.parent: Dict[str, Optional[str]] = {"object": None}
        self.declared_types: List[str] = []
        self.constants: Dict[str, str] = {}
        self.predicates: Dict[str, List[Tuple[str, str]]] = {}
        self.functions: Dict[str, List[Tuple[str, str]]] = {}
        self.actions: Dict[str, RefAction] = {}

    # -- construction ---------------------------------------------------------------------------
    @staticmethod
    def from_tree(tree) -> "RefDomain":
        if not isinstance(tree, list) or not tree or tree[0] != "define":
            raise RefError("not a define form")
        d = RefDomain()
        for sec in tree[1:]:
            if not isinstance(sec, list) or not sec:
                raise RefError("bad section")
            h = sec[0]
            if h == "domain":
                d.name = sec[1]
            elif h == ":requirements":
                d.requirements = list(sec[1:])
            elif h == ":types":
                d._types(sec[1:])
            elif h == ":constants":
                for n, t in parse_typed_list(sec[1:]):
                    d.constants[n] = t
            elif h == ":predicates":
                for p in sec[1:]:
                    d.predicates[p[0]] = parse_typed_list(p[1:])
            elif h == ":functions":
                # (:functions (f) (g ?a - t) - number ...) ; the optional "- number" is skipped
                items = [x for x in sec[1:]]
                i = 0
                while i < len(items):
                    if items[i] == "-":
                        i += 2
                        continue
                    f = items[i]
                    d.functions[f[0]] = parse_typed_list(f[1:])
                    i += 1
            elif h == ":action":
                d._action(sec[1:])
            else:
                raise RefError(f"unknown section {h}")
        return d

    def _types(self, items):
        for n, t in parse_typed_list(items):
            if isinstance(t, tuple):
                raise RefError("either in :types")
            if n not in self.declared_types:
                self.declared_types.append(n)
            if n != "object":
                self.parent[n] = t
            if t not in self.parent:
                self.parent[t] = "object"
            if t not in self.declared_types and t != "object":
                self.declared_types.append(t)

    def _action(self, items):
        name = items[0]
        params, pre, eff = [], [], ["and"]
        i = 1
        while i < len(items):
            k = items[i]
            v = items[i + 1] if i + 1 < len(items) else None
            if k == ":parameters":
                params = parse_typed_list(v)
            elif k == ":precondition":
                pre = v
            elif k == ":effect":
                eff = v
            else:
                raise RefError(f"unknown action key {k}")
            i += 2
        self.actions[name] = RefAction(name, params, pre, eff)

    # -- types ----------------------------------------------------------------------------------
    def type_names(self):
        return set(self.parent)

    def subtype(self, a, b) -> bool:
        """a ⊑ b.  b may be ('either', t1, t2, ...)."""
        if isinstance(b, tuple):
            return any(self.subtype(a, x) for x in b[1:])
        seen = set()
        cur = a
        while cur is not None and cur not in seen:
            if cur == b:
                return True
            seen.add(cur)
            cur = self.parent.get(cur)
        return False

    def all_objects(self, problem_objects: Dict[str, str]) -> Dict[str, str]:
        objs = dict(problem_objects)
        for c, t in self.constants.items():
            objs.setdefault(c, t)
        return objs

    def range_of(self, ty, objs: Dict[str, str]) -> List[str]:
        return [o for o, t in objs.items() if self.subtype(t, ty)]

    def calls(self, action: RefAction, objs: Dict[str, str]) -> List[Tuple[str, ...]]:
        ranges = [self.range_of(t, objs) for _, t in action.params]
        return [tuple(c) for c in product(*ranges)]


class RefProblem:
    def __init__(self):
        self.name = None
        self.domain_name = None
        self.objects: Dict[str, str] = {}
        self.atoms = set()
        self.fluents: Dict[tuple, Fraction] = {}
        self.goal = ["and"]

    @staticmethod
    def from_tree(tree) -> "RefProblem":
        if not isinstance(tree, list) or not tree or tree[0] != "define":
            raise RefError("not a define form")
        p = RefProblem()
        for sec in tree[1:]:
            h = sec[0]
            if h == "problem":
                p.name = sec[1]
            elif h == ":domain":
                p.domain_name = sec[1]
            elif h == ":objects":
                for n, t in parse_typed_list(sec[1:]):
                    p.objects[n] = t
            elif h == ":init":
                for it in sec[1:]:
                    if it[0] == "=":
                        p.fluents[tuple(it[1])] = num(it[2])
                    else:
                        p.atoms.add(tuple(it))
            elif h == ":goal":
                p.goal = sec[1]
            elif h == ":metric":
                pass
            else:
                raise RefError(f"unknown problem section {h}")
        return p

    def state(self) -> "RefState":
        return RefState(self.atoms, self.fluents)


# ------------------------------------------------------------------------------------------------
# states


class RefState:
    __slots__ = ("atoms", "fluents")

    def __init__(self, atoms: Iterable[tuple] = (), fluents: Optional[Dict[tuple, Fraction]] = None):
        self.atoms = frozenset(tuple(a) for a in atoms)
        self.fluents = dict(fluents or {})

    def key(self):
        return (self.atoms, frozenset(self.fluents.items()))

    def __eq__(self, other):
        return isinstance(other, RefState) and self.key() == other.key()

    def __hash__(self):
        return hash(self.key())

    def to_json(self):
        return {
            "atoms": sorted(" ".join(a) for a in self.atoms),
            "fluents": {" ".join(k): str(v) for k, v in sorted(self.fluents.items())},
        }

    @staticmethod
    def from_json(j):
        return RefState(
            [tuple(a.split(" ")) for a in j["atoms"]],
            {tuple(k.split(" ")): Fraction(v) for k, v in j["fluents"].items()},
        )

    @staticmethod
    def from_state_tree(tree) -> "RefState":
        """tree = [':state'|':init', item...] as written by State.serialize()."""
        atoms, fl = set(), {}
        for it in tree[1:]:
            if isinstance(it, list) and it and it[0] == "=":
                if len(it) != 3 or not isinstance(it[1], list):
                    raise RefError(f"bad fluent entry {it}")
                k = tuple(it[1])
                if k in fl:
                    raise RefError(f"fluent listed twice {k}")
                fl[k] = num(it[2])
            elif isinstance(it, list) and it and all(isinstance(x, str) for x in it):
                atoms.add(tuple(it))
            else:
                raise RefError(f"bad state entry {it}")
        return RefState(atoms, fl)

    def __repr__(self):
        return f"RefState({self.to_json()})"


# ------------------------------------------------------------------------------------------------
# formulas and expressions


def term(t, beta):
    if not isinstance(t, str):
        raise RefError(f"bad term {t}")
    if t.startswith("?"):
        if t not in beta:
            raise RefError(f"unbound variable {t}")
        return beta[t]
    return t


def ground_atom(dom: RefDomain, a, beta, table=None):
    table = dom.predicates if table is None else table
    name = a[0]
    if name not in table:
        raise RefError(f"undeclared symbol {name}")
    if len(a) - 1 != len(table[name]):
        raise RefError(f"arity mismatch for {name}")
    return (name,) + tuple(term(t, beta) for t in a[1:])


def value(dom: RefDomain, e, beta, st: RefState) -> Fraction:
    if isinstance(e, str):
        return num(e)
    if not e:
        raise RefError("empty expression")
    h = e[0]
    if h in ARITH:
        args = [value(dom, x, beta, st) for x in e[1:]]
        if h == "-" and len(args) == 1:
            return -args[0]
        if len(args) < 2:
            raise RefError("arithmetic needs two operands")
        if len(args) > 2 and h in ("-", "/"):
            raise RefError("n-ary - or /")
        acc = args[0]
        for a in args[1:]:
            if h == "+":
                acc = acc + a
            elif h == "-":
                acc = acc - a
            elif h == "*":
                acc = acc * a
            else:
                if a == 0:
                    raise RefUndefined("division by zero")
                acc = acc / a
        return acc
    if h in dom.functions:
        k = ground_atom(dom, e, beta, dom.functions)
        if k not in st.fluents:
            raise RefUndefined(f"undefined fluent {k}")
        return st.fluents[k]
    raise RefError(f"unknown numeric head {h}")


def compare(op, a: Fraction, b: Fraction, eps: Fraction) -> bool:
    if op == "<":
        return a < b
    if op == ">":
        return a > b
    close = abs(a - b) <= eps
    if op == "=":
        return close
    if op == "<=":
        return close or a < b
    if op == ">=":
        return close or a > b
    raise RefError(op)


def _is_object_equality(phi) -> bool:
    return (
        len(phi) == 3
        and isinstance(phi[1], str)
        and isinstance(phi[2], str)
        and not is_number(phi[1])
        and not is_number(phi[2])
    )


def holds(dom: RefDomain, phi, beta, st: RefState, objs: Dict[str, str], eps=DEFAULT_EPS) -> bool:
    if isinstance(phi, str):
        raise RefError(f"bare token as formula: {phi}")
    if not phi:
        return True  # "()" : empty precondition
    h = phi[0]
    if h == "and":
        # evaluate all operands so that ill-formedness is not short-circuited away
        vals = [holds(dom, x, beta, st, objs, eps) for x in phi[1:]]
        return all(vals)
    if h == "or":
        vals = [holds(dom, x, beta, st, objs, eps) for x in phi[1:]]
        return any(vals)
    if h == "not":
        if len(phi) != 2:
            raise RefError("not takes one operand")
        return not holds(dom, phi[1], beta, st, objs, eps)
    if h == "imply":
        if len(phi) != 3:
            raise RefError("imply takes two operands")
        a = holds(dom, phi[1], beta, st, objs, eps)
        b = holds(dom, phi[2], beta, st, objs, eps)
        return (not a) or b
    if h in ("forall", "exists"):
        if len(phi) != 3:
            raise RefError("quantifier shape")
        vars_ = parse_typed_list(phi[1])
        ranges = [dom.range_of(t, objs) for _, t in vars_]
        vals = []
        for combo in product(*ranges):
            b2 = dict(beta)
            for (v, _), o in zip(vars_, combo):
                b2[v] = o
            vals.append(holds(dom, phi[2], b2, st, objs, eps))
        return all(vals) if h == "forall" else any(vals)
    if h == "=" and _is_object_equality(phi):
        return term(phi[1], beta) == term(phi[2], beta)
    if h in COMPARE:
        if len(phi) != 3:
            raise RefError("comparison takes two operands")
        return compare(h, value(dom, phi[1], beta, st), value(dom, phi[2], beta, st), eps)
    if h in dom.predicates:
        return ground_atom(dom, phi, beta) in st.atoms
    raise RefError(f"unknown formula head {h}")


# ------------------------------------------------------------------------------------------------
# effects


class Group:
    __slots__ = ("adds", "dels", "writes", "label")

    def __init__(self, label):
        self.adds, self.dels, self.writes, self.label = set(), set(), [], label


class Inconsistent(Exception):
    pass


def _collect(dom, eff, beta, st, objs, eps, group: Group, groups: List[Group], label):
    if isinstance(eff, str) or not eff:
        raise RefError(f"bad effect {eff}")
    h = eff[0]
    if h == "and":
        for e in eff[1:]:
            _collect(dom, e, beta, st, objs, eps, group, groups, label)
    elif h == "not":
        if len(eff) != 2:
            raise RefError("not in effect")
        group.dels.add(ground_atom(dom, eff[1], beta))
    elif h in ASSIGN_OPS:
        if len(eff) != 3:
            raise RefError("assignment shape")
        k = ground_atom(dom, eff[1], beta, dom.functions)
        v = value(dom, eff[2], beta, st)
        group.writes.append((k, h, v))
    elif h == "when":
        if len(eff) != 3:
            raise RefError("when shape")
        g = Group(label + ("when", len(groups)))
        # the consequent is always interpreted (so ill-formedness is found), fired only if the
        # condition holds in the PRE-state
        fires = holds(dom, eff[1], beta, st, objs, eps)
        scratch: List[Group] = []
        _collect(dom, eff[2], beta, st, objs, eps, g, scratch, g.label)
        if fires:
            groups.append(g)
            groups.extend(scratch)
    elif h == "forall":
        if len(eff) != 3:
            raise RefError("forall effect shape")
        vars_ = parse_typed_list(eff[1])
        ranges = [dom.range_of(t, objs) for _, t in vars_]
        for combo in product(*ranges):
            b2 = dict(beta)
            for (v, _), o in zip(vars_, combo):
                b2[v] = o
            g = Group(label + ("forall",) + combo)
            groups.append(g)
            _collect(dom, eff[2], b2, st, objs, eps, g, groups, g.label)
    elif h in dom.predicates:
        group.adds.add(ground_atom(dom, eff, beta))
    else:
        raise RefError(f"unknown effect head {h}")


def fired_groups(dom, action: RefAction, beta, st, objs, eps=DEFAULT_EPS) -> List[Group]:
    top = Group(("top",))
    groups = [top]
    _collect(dom, action.eff, beta, st, objs, eps, top, groups, ("top",))
    return groups


def successor(dom, action: RefAction, args, st: RefState, objs, eps=DEFAULT_EPS) -> RefState:
    """PDDL successor of an (assumed applicable) call.  Raises Inconsistent / RefUndefined / RefError."""
    beta = binding(action, args)
    groups = fired_groups(dom, action, beta, st, objs, eps)
    adds, dels = set(), set()
    writer = {}
    for i, g in enumerate(groups):
        for j, g2 in enumerate(groups):
            if i != j and (g.adds & g2.dels):
                raise Inconsistent("atom added by one group and deleted by another")
        adds |= g.adds
        dels |= g.dels
    fl = dict(st.fluents)
    for g in groups:
        for k, op, v in g.writes:
            if k in writer:
                raise Inconsistent(f"fluent written twice: {k}")
            writer[k] = (op, v)
    for k, (op, v) in writer.items():
        if op == "assign":
            fl[k] = v
            continue
        if k not in st.fluents:
            raise RefUndefined(f"update of undefined fluent {k}")
        old = st.fluents[k]
        if op == "increase":
            fl[k] = old + v
        elif op == "decrease":
            fl[k] = old - v
        elif op == "scale-up":
            fl[k] = old * v
        elif op == "scale-down":
            if v == 0:
                raise RefUndefined("scale-down by zero")
            fl[k] = old / v
    return RefState((st.atoms - dels) | adds, fl)


def binding(action: RefAction, args) -> Dict[str, str]:
    if len(args) != len(action.params):
        raise RefError("wrong number of arguments")
    return {p: a for (p, _), a in zip(action.params, args)}


def applicable(dom, action: RefAction, args, st, objs, eps=DEFAULT_EPS) -> bool:
    return holds(dom, action.pre, binding(action, args), st, objs, eps)


# ------------------------------------------------------------------------------------------------
# what a (program, call) can look at: relevant atoms / fluents


def mentioned(dom, action: RefAction, args, objs):
    """Ground atoms and fluents the instantiated precondition / effect mention (quantifiers expanded)."""
    atoms, fluents = [], []

    def add(lst, x):
        if x not in lst:
            lst.append(x)

    def walk_expr(e, beta):
        if isinstance(e, str):
            return
        if e and e[0] in dom.functions and len(e) - 1 == len(dom.functions[e[0]]):
            try:
                add(fluents, ground_atom(dom, e, beta, dom.functions))
            except RefError:
                pass
            return
        for x in e[1:]:
            walk_expr(x, beta)

    def walk(phi, beta):
        if isinstance(phi, str) or not phi:
            return
        h = phi[0]
        if h in ("forall", "exists") and len(phi) == 3 and isinstance(phi[1], list):
            try:
                vars_ = parse_typed_list(phi[1])
            except RefError:
                return
            ranges = [dom.range_of(t, objs) for _, t in vars_]
            for combo in product(*ranges):
                b2 = dict(beta)
                for (v, _), o in zip(vars_, combo):
                    b2[v] = o
                walk(phi[2], b2)
            return
        if h in dom.predicates:
            try:
                add(atoms, ground_atom(dom, phi, beta))
            except RefError:
                pass
            return
        if h in COMPARE or h in ASSIGN_OPS or h in ARITH:
            for x in phi[1:]:
                walk_expr(x, beta)
            return
        for x in phi[1:]:
            walk(x, beta)

    try:
        beta = binding(action, args)
    except RefError:
        return atoms, fluents
    walk(action.pre, beta)
    walk(action.eff, beta)
    return atoms, fluents


# ------------------------------------------------------------------------------------------------
# plans, joint actions, interference (C04, C15, C16)


def run_plan(dom, calls, st: RefState, objs, eps=DEFAULT_EPS, refuse="stay"):
    """calls = [(action name, args)].  Returns list of (pre, applicable?, post)."""
    out = []
    for name, args in calls:
        act = dom.actions[name]
        ok = applicable(dom, act, args, st, objs, eps)
        if ok:
            nxt = successor(dom, act, args, st, objs, eps)
        elif refuse == "stay":
            nxt = st
        else:
            raise ValueError("inapplicable")
        out.append((st, ok, nxt))
        st = nxt
    return out


def sequential(dom, members, st, objs, eps=DEFAULT_EPS) -> Optional[RefState]:
    """Apply members in the given order, each must be applicable; None if some step is not."""
    for name, args in members:
        act = dom.actions[name]
        if not applicable(dom, act, args, st, objs, eps):
            return None
        st = successor(dom, act, args, st, objs, eps)
    return st


def non_interfering(dom, members, st, objs, eps=DEFAULT_EPS) -> Optional[RefState]:
    """Semantic definition straight from C16: every permutation is executable and all end in the
    same state.  Returns that state, or None if the members interfere in st."""
    results = set()
    for perm in permutations(members):
        try:
            r = sequential(dom, perm, st, objs, eps)
        except (Inconsistent, RefUndefined):
            return None
        if r is None:
            return None
        results.add(r)
        if len(results) > 1:
            return None
    if not results:
        return st
    return next(iter(results))
