"""Iteration-order schedules (DESIGN §2.7).

The library keeps operands / effects / effect groups in hash sets and folds over them; the order is
an implicit schedule.  This module installs a harness-side seam: inside `installed(sched)` the name
`set` in every pddl_plus_parser module resolves to PermSet, a set subclass whose iteration order is
(insertion order) permuted by a scheduler choice.  A stateless deviation-bounded DFS (`explore`)
enumerates all executions with at most `bound` non-identity choices.  No repository change.
"""
import contextlib
import sys
from itertools import permutations
from typing import Callable, List, Optional


class ReplayDivergence(Exception):
    """A recorded choice is out of range while replaying a prefix: harness error, never a violation."""


def perm_menu(n: int):
    if n <= 3:
        return [list(p) for p in permutations(range(n))]
    menu = [list(range(n)), list(range(n - 1, -1, -1))]
    for r in range(1, n):
        menu.append([(i + r) % n for i in range(n)])
    return menu


class Sched:
    def __init__(self, prefix=()):
        self.prefix = list(prefix)
        self.points = []  # (n_alternatives, label, chosen)
        self.site_perm = {}  # (creation site, size) -> permutation, decided once per execution

    def perm_for(self, site: str, n: int):
        key = (site, n)
        p = self.site_perm.get(key)
        if p is None:
            menu = perm_menu(n)
            p = menu[self.choose(len(menu), f"{site}/{n}")]
            self.site_perm[key] = p
        return p

    def choose(self, n: int, label: str) -> int:
        i = len(self.points)
        c = self.prefix[i] if i < len(self.prefix) else 0
        if c >= n:
            raise ReplayDivergence(f"choice {c} out of range {n} at point {i} ({label})")
        self.points.append((n, label, c))
        return c

    @property
    def choices(self):
        return [p[2] for p in self.points]

    def describe(self):
        return [(lbl, c) for (_, lbl, c) in self.points if c != 0]


def _short(path: str) -> str:
    return path.rsplit("/", 1)[-1]


class PermSet(set):
    _sched: Optional[Sched] = None
    _created = 0

    def __init__(self, iterable=()):
        super().__init__()
        self._order = []
        PermSet._created += 1
        # the schedule is uniform per creation site: every set created by the same code (creating frame
        # and its caller) with the same size iterates under the same permutation within one execution,
        # so the number of choice points does not grow with the number of states queried
        f = sys._getframe(1)
        g = f.f_back
        self._site = (f"{_short(f.f_code.co_filename)}:{f.f_lineno}"
                      f"<{_short(g.f_code.co_filename)}:{g.f_lineno}" if g is not None else "")
        for x in iterable:
            self.add(x)

    # -- mutation, keeping the insertion order ---------------------------------------------------
    def add(self, x):
        n = len(self)
        super().add(x)
        if len(self) > n:
            self._order.append(x)

    def update(self, *others):
        for it in others:
            for x in it:
                self.add(x)

    def _forget(self, x):
        for i, y in enumerate(self._order):
            if y is x:
                del self._order[i]
                return
        for i, y in enumerate(self._order):
            try:
                if y == x:
                    del self._order[i]
                    return
            except Exception:
                pass
        self._order = [y for y in self._order if set.__contains__(self, y)]

    def discard(self, x):
        n = len(self)
        super().discard(x)
        if len(self) < n:
            self._forget(x)

    def remove(self, x):
        super().remove(x)
        self._forget(x)

    def pop(self):
        x = next(iter(self))
        self.remove(x)
        return x

    def clear(self):
        super().clear()
        self._order = []

    def __ior__(self, other):
        self.update(other)
        return self

    def __isub__(self, other):
        for x in list(other):
            self.discard(x)
        return self

    def copy(self):
        return PermSet(self)

    # -- the seam --------------------------------------------------------------------------------
    def __iter__(self):
        base = self._order
        n = len(base)
        s = PermSet._sched
        if s is None or n < 2:
            return iter(list(base))
        perm = s.perm_for(self._site, n)
        return iter([base[i] for i in perm])

    def __reduce__(self):
        return (set, (list(self._order),))


def _lib_modules():
    return [m for name, m in list(sys.modules.items())
            if m is not None and (name == "pddl_plus_parser" or name.startswith("pddl_plus_parser."))]


@contextlib.contextmanager
def installed(sched: Optional[Sched]):
    """sched None -> nothing is touched (the library exactly as a user runs it)."""
    if sched is None:
        yield None
        return
    mods = _lib_modules()
    saved = [(m, m.__dict__.get("set", _lib_modules)) for m in mods]
    PermSet._sched = sched
    PermSet._created = 0
    for m in mods:
        m.__dict__["set"] = PermSet
    try:
        yield sched
    finally:
        PermSet._sched = None
        for m, old in saved:
            if old is _lib_modules:
                m.__dict__.pop("set", None)
            else:
                m.__dict__["set"] = old


def explore(run: Callable[[Sched], object], bound: int, max_execs: Optional[int] = None):
    """Stateless deviation-bounded DFS (the guidance's explore(prefix) idiom).  `run(sched)` executes
    one complete execution, asking `sched.choose` at every choice point; yields (sched, result) for every
    execution with <= bound non-default choices.  Returns early (and says so) only at max_execs."""
    stack: List[List[int]] = [[]]
    n = 0
    while stack:
        prefix = stack.pop()
        s = Sched(prefix)
        res = run(s)
        n += 1
        yield s, res
        if max_execs is not None and n >= max_execs:
            return
        devs = sum(1 for c in prefix if c != 0)
        if devs >= bound:
            continue
        for i in range(len(s.points) - 1, len(prefix) - 1, -1):
            nalt = s.points[i][0]
            base = s.choices[:i]
            for alt in range(nalt - 1, 0, -1):
                stack.append(base + [alt])


def replay_twice(run: Callable[[Sched], object], choices) -> bool:
    """Determinism control: the same schedule must give the same observation twice."""
    a = run(Sched(choices))
    b = run(Sched(choices))
    return repr(a) == repr(b)
