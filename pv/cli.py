"""python -m pv.cli <ID> [--tier quick|thorough] [--replay file] [--limit n] [--workers n]"""
import argparse
import os
import sys

os.environ.setdefault("PYTHONHASHSEED", "0")


def main(argv=None):
    ap = argparse.ArgumentParser()
    ap.add_argument("prop")
    ap.add_argument("--tier", default=os.environ.get("VERIF_TIER", "quick"), choices=["quick", "thorough"])
    ap.add_argument("--replay")
    ap.add_argument("--limit", type=int)
    ap.add_argument("--workers", type=int)
    ap.add_argument("--recheck", type=int)
    a = ap.parse_args(argv)
    if os.environ.get("PYTHONHASHSEED") != "0" or "PV_REEXEC" not in os.environ:
        # fixed hash seed for every worker; re-exec once so the interpreter itself honours it
        env = dict(os.environ, PYTHONHASHSEED="0", PV_REEXEC="1")
        os.execve(sys.executable, [sys.executable, "-m", "pv.cli"] + (argv or sys.argv[1:]), env)
    from . import runner
    modname = f"pv.checks.{a.prop.lower()}"
    if a.replay:
        return runner.replay(modname, a.replay)
    if a.recheck:
        return runner.recheck(modname, a.tier, a.recheck)
    seed = int(os.environ.get("VERIF_SEED", "0") or 0)
    return runner.run(modname, a.tier, seed, a.workers, a.limit)


if __name__ == "__main__":
    sys.exit(main())
