"""C02 — an action is reported applicable exactly when its precondition is true.

Space: every in-fragment precondition of the V-domain corpus x every type-correct call x every state
of the call's relevant universe (x operand orders, see pv.permsched).
Oracle: Operator(...).is_applicable(state) == refsem.holds(precondition).  Attribution (DESIGN §2.4):
reported only if the implementation disagrees with the reading of the SOURCE and with the reading
of what the parser produced (a parser fault is C01's).
"""
from ..bridge import guard, Raised
from ..core import Prog, ref_applicable, UNDEF, ILL, show
from ..gens import vdom
from ..bridge import parse_domain, operator
from ..permsched import installed, explore, Sched
from ..runner import CaseResult, digest
from ..refsem import RefState

ID = "C02"
RULE = ("every precondition instance of the bounded grammar (DESIGN §3: and/or/forall shapes over a 10 (quick) / 22 "
        "(thorough) literal alphabet incl. negation, (in)equality, numeric comparisons, constants) x 6 parameter "
        "profiles (pairwise) x every type-correct call over objects o1:t1 o2:t2 o3:t3 (+constant) x every state over "
        "the atoms/fluents the instantiated formula mentions (fluents on a rational grid) x operand orders of every "
        "operand set (identity + every single-set permutation); a formula is non-trivial iff both truth values were "
        "observed over its universe")
ASSUMPTIONS = ["states define every fluent the action reads (property's quantifier)",
               "quantified programs have no constant of a type below the quantified type (the property says "
               "'the problem's objects')",
               "reference semantics pv.refsem (self-tested) is the oracle; EPSILON at its default 1e-4"]
CASE_TIMEOUT = 120


def cases(tier):
    for p in vdom.pre_programs(tier):
        p = dict(p)
        p["max_states"] = 256 if tier == "quick" else 512
        p["orders"] = 1 if tier == "quick" else 2
        yield p


def check_case(case):
    r = CaseResult()
    pg = Prog(case)
    if not pg.parsed:
        r.skipped = "parse-raised (C01's business)"
        r.outcome("parse-raised")
        return r
    act = pg.S.actions["a"]
    seen_true = seen_false = False

    def judge(got, s_val, p_val, args, st, order):
        """True if a failure was recorded."""
        if got is s_val:
            r.outcome("agree")
            return False
        if isinstance(got, Raised) and s_val is False:
            r.outcome("raised-where-false")
            return False
        at_parse_time = p_val is not None and p_val not in (UNDEF, ILL) and got is p_val
        if at_parse_time:
            # the structure built at parse time (parser + expression-tree construction) already reads differently from
            # the text: C01 reports it too; the answer is wrong for the precondition as written all the same
            r.outcome("disagree-already-at-parse-time")
        r.outcome("disagree")
        r.fail(("applicability-as-written" if at_parse_time else "applicability") if order is None else "applicability-order",
               f"call (a {' '.join(args)}) state={st.to_json()} order={order}: implementation={show(got)} "
               f"source-reading={s_val} parsed-reading={p_val}"
               f"{' (the parsed structure already differs from the text)' if at_parse_time else ''} pre={case['pre']}",
               expected=s_val, observed=show(got), tags=case.get("tags", []))
        return True

    for args in pg.S.calls(act, pg.objs):
        states, caps = vdom.universe(pg.S, act, args, pg.objs, max_states=case.get("max_states", 256))
        for c in caps:
            r.count("cap:" + c.split(" ")[0])
        judged = []
        # pass 1: the library exactly as a user runs it; everything fresh for every query
        for st in states:
            s_val = ref_applicable(pg.S, "a", args, st, pg.objs)
            if s_val in (UNDEF, ILL):
                r.outcome("ref-" + s_val)
                continue
            p_val = ref_applicable(pg.P, "a", args, st, pg.objs) if pg.P is not None else None
            seen_true |= s_val is True
            seen_false |= s_val is False
            r.seen("states", digest((case["pre"], args, st.key())))
            judged.append((st, s_val, p_val))
            lib_st, prob = pg.lib_state(st)
            got = guard(lambda: pg.op("a", args, prob).is_applicable(lib_st))
            r.count("transitions")
            if judge(got, s_val, p_val, args, st, None) and len(r.fails) >= 3:
                return r
        if r.fails or not judged:
            continue
        # pass 1b: for quantified formulas, every declaration order of the problem's objects (the order in which a
        # forall is unfolded is the iteration order of Problem.objects)
        if "forall" in case.get("tags", []):
            from itertools import permutations
            names = list(pg.objects)
            perms = list(permutations(names))[1:]
            if case.get("orders", 1) <= 1:  # quick: reversal and one rotation; thorough: all
                perms = [tuple(reversed(names)), tuple(names[1:] + names[:1])]
            for perm in perms:
                for st, s_val, p_val in judged:
                    lib_st, prob = pg.lib_state(st, order=perm)
                    got = guard(lambda: pg.op("a", args, prob).is_applicable(lib_st))
                    r.count("transitions")
                    r.count("object-orders")
                    if judge(got, s_val, p_val, args, st, f"objects declared {perm}"):
                        break
                if r.fails:
                    break
            if r.fails:
                continue
        # pass 1d: a call on domain constants only, asked in a problem that declares NO object (its object table is empty,
        # not missing): quantifiers range over the constants with their declared types, whatever facts mention them
        if "forall" in case["pre"] and all(a in pg.S.constants for a in args):
            from ..bridge import make_state
            only = pg.S.all_objects({})
            done = set()
            for st, _, _ in judged:
                st2 = RefState([a for a in st.atoms if all(x in only for x in a[1:])],
                               {k: v for k, v in st.fluents.items() if all(x in only for x in k[1:])})
                if st2.key() in done:
                    continue
                done.add(st2.key())
                want2 = ref_applicable(pg.S, "a", args, st2, only)
                if want2 in (UNDEF, ILL):
                    continue
                ls2, pr2 = make_state(pg.D, pg.S.name, {}, st2, constants=pg.S.constants)
                got = guard(lambda: operator(pg.D, "a", args, pr2.objects).is_applicable(ls2))
                r.count("transitions")
                r.count("constants-only-table")
                if judge(got, want2, None, args, st2, "a problem that declares no objects (empty object table)"):
                    break
            if r.fails:
                continue
        # pass 1c: ONE operator object queried on every state in turn, each state short-lived (built, queried, dropped)
        prob_objs = pg.lib_state(judged[0][0])[1].objects
        reused = guard(lambda: pg.op("a", args, pg.lib_state(judged[0][0])[1]))
        if not isinstance(reused, Raised):
            for st, s_val, p_val in judged:
                got = guard(lambda: reused.is_applicable(pg.lib_state(st)[0]))
                r.count("transitions")
                r.count("operator-reuse")
                if got is not s_val:
                    fresh = guard(lambda: pg.op("a", args, pg.lib_state(st)[1]).is_applicable(pg.lib_state(st)[0]))
                    if fresh is s_val and judge(got, s_val, None, args, st, "one operator re-used over successive states"):
                        break
            if r.fails:
                continue
        # pass 2: operand orders.  One parse + one grounding per order, queried on every state;
        # a disagreement is confirmed in isolation (fresh objects, same schedule) before it counts.
        lib_states = [pg.lib_state(st) for st, _, _ in judged]
        prob0 = lib_states[0][1]

        def run(sched):
            with installed(sched):
                D = parse_domain(pg.text)
                op = operator(D, "a", args, prob0.objects)
                return [guard(op.is_applicable, ls) for ls, _ in lib_states]

        for sched, res in explore(run, case.get("orders", 1)):
            r.count("schedules")
            if isinstance(res, Raised):
                res = [res] * len(judged)
            for (st, s_val, p_val), got in zip(judged, res):
                r.count("transitions")
                if got is s_val:
                    continue

                def confirm():
                    ls, pr = pg.lib_state(st)
                    with installed(Sched(sched.choices)):
                        D = parse_domain(pg.text)
                        return operator(D, "a", args, pr.objects).is_applicable(ls)
                got2 = guard(confirm)
                if judge(got2, s_val, p_val, args, st, sched.describe()):
                    break
            if r.fails:
                break
        if len(r.fails) >= 3:
            break
    r.nontrivial = seen_true and seen_false
    return r
