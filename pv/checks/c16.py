"""C16 — a joint action acts like its members applied one after another, in any order.

Space: multi-agent mini-domains (STRIPS with a shared resource and negative preconditions; numeric with
per-agent and shared counters; forall / when effects) x every joint action (one call or nop per agent,
2 agents quick / 3 agents thorough) x every state of the members' joint relevant universe x every
permutation of the slots; plus the exported joint trajectories of every 2-step joint plan from the
initial state.
Oracle: members all applicable and non-interfering (semantic definition: every order executable and
confluent, pv.refsem.non_interfering) => apply_actions == that common state; nop slots change nothing;
exactly-one-inapplicable member => ValueError unless allow_inapplicable_actions; exported trajectory:
one step per joint action, chained, states equal to the reference.
"""
from itertools import permutations, product

from .. import sexp
from ..bridge import guard, Raised, parse_domain, parse_problem, observe_state, make_state
from ..core import same_state, show
from ..gens import madoms, vdom
from ..refsem import RefState, applicable, non_interfering, mentioned, Inconsistent, RefUndefined
from ..runner import CaseResult, digest

ID = "C16"
RULE = ("domains ma1 (STRIPS, shared (lit), negative preconditions), ma2 (numeric: per-agent fuel, shared total), ma3 "
        "(forall-when and when effects); agents 2 (quick) / 3 (thorough); every joint action = one call of the agent or nop "
        "per slot (not all nop), and every call listed in two slots, x every state over the atoms/fluents the members mention (<= 7 atoms, fluents on a grid) "
        "x every permutation of the slots; judged: all members applicable + non-interfering (equality with the sequential "
        "result), exactly one member inapplicable (refusal / allow switch); single-slot joint actions incl. [nop]; exported "
        "joint trajectories of all 1-2 step joint plans from the initial state (incl. all-idle steps, a parameterless member, the same plans read from bracketed / plain files with and without a final line end, strict-lenient-strict on one exporter); ma2b = ma2 without a numeric requirement flag. non-trivial = a joint action with >= 2 "
        "non-nop members")
ASSUMPTIONS = ["interference is defined semantically (every member order executable and confluent in that state)",
               "all-applicable but interfering joint actions are outside the quantifier (counted, not judged)",
               "with allow_inapplicable_actions the returned state is not judged, only that no error is raised"]
CASE_TIMEOUT = 300
GRID = [0, 1, 2]


def cases(tier):
    for name in madoms.ALL:
        for n in ((2,) if tier == "quick" else (2, 3)):
            S, RP, agents = madoms.ref(name, n)
            objs = S.all_objects(RP.objects)
            per = madoms.agent_calls(S, objs, agents)
            slots = [[None] + per[a] for a in agents]
            for joint in product(*slots):
                if all(c is None for c in joint):
                    continue
                yield {"domain": name, "agents": n,
                       "joint": [None if c is None else [c[0], *c[1]] for c in joint]}
            # the same grounded call in two slots (a collaborative action listed once per participating agent): it is
            # two members, applied twice when that is executable and confluent
            for a in agents:
                for c in per[a]:
                    for other_slot in range(1, n):
                        joint = [None] * n
                        joint[0] = joint[other_slot] = [c[0], *c[1]]
                        yield {"domain": name, "agents": n, "joint": joint, "repeated": True}
            yield {"domain": name, "agents": n, "joint": None, "kind": "single-slot"}
            yield {"domain": name, "agents": n, "joint": None, "kind": "trajectory"}


_W = {}


class W:
    def __init__(self, name, n):
        d, p, self.agents = madoms.texts(name, n)
        self.S, self.RP, _ = madoms.ref(name, n)
        self.objs = self.S.all_objects(self.RP.objects)
        self.D = parse_domain(d)
        self.P = parse_problem(p, self.D)
        self.ptext = p
        self.per = madoms.agent_calls(self.S, self.objs, self.agents)


def world(name, n):
    if (name, n) not in _W:
        _W[(name, n)] = W(name, n)
        use_smaller_problem_first(_W[(name, n)])
    return _W[(name, n)]


def use_smaller_problem_first(w):
    """Before a world is used: the same domain object steps every two-member joint action in a problem of the same
    name with FEWER objects (item i2 missing).  Nothing kept from those calls may decide anything later."""
    import re
    from pddl_plus_parser.models import ActionCall
    from pddl_plus_parser.multi_agent.common import apply_actions, create_initial_state
    small = w.ptext.replace("i1 i2 - item", "i1 - item").replace(" i2 - crate", "")
    small = re.sub(r"\([a-z]+( [a-z0-9]+)* i2\)", "", small)
    if small == w.ptext:
        return
    try:
        prob = parse_problem(small, w.D)
        s0 = create_initial_state(prob)
        for a, b in product(w.per[w.agents[0]], w.per[w.agents[1]]):
            if "i2" in a[1] or "i2" in b[1]:
                continue
            guard(lambda: apply_actions(w.D, s0, [ActionCall(a[0], list(a[1])), ActionCall(b[0], list(b[1]))],
                                        allow_inapplicable_actions=True, problem_objects=prob.objects))
    except Exception:  # noqa: the smaller problem is only there to be remembered wrongly
        pass


def joint_universe(w, members, max_states=256):
    atoms, fluents = [], []
    for name, args in members:
        a, f = mentioned(w.S, w.S.actions[name], args, w.objs)
        for x in a:
            if x not in atoms:
                atoms.append(x)
        for x in f:
            if x not in fluents:
                fluents.append(x)
    atoms = atoms[:7]
    from fractions import Fraction
    grid = [Fraction(g) for g in GRID]
    while len(grid) > 2 and (2 ** len(atoms)) * (len(grid) ** len(fluents)) > max_states:
        grid = grid[:-1]
    states = []
    for mask in range(2 ** len(atoms)):
        sel = [a for i, a in enumerate(atoms) if mask >> i & 1]
        for vals in product(grid, repeat=len(fluents)):
            states.append(RefState(sel, dict(zip(fluents, vals))))
    return states


def lib_apply(w, st_ref, joint_slots, allow=False, objects=True):
    from pddl_plus_parser.models import ActionCall
    from pddl_plus_parser.multi_agent.common import apply_actions
    ls, prob = make_state(w.D, w.S.name, w.RP.objects, st_ref)
    calls = [ActionCall("nop", []) if c is None else ActionCall(c[0], list(c[1:])) for c in joint_slots]
    kw = {"allow_inapplicable_actions": allow}
    try:
        import inspect
        if objects and "problem_objects" in inspect.signature(apply_actions).parameters:
            kw["problem_objects"] = prob.objects
    except (TypeError, ValueError):
        pass
    res = guard(lambda: apply_actions(w.D, ls, calls, **kw))
    return res if isinstance(res, Raised) else guard(observe_state, res)


def check_joint(r, case):
    w = world(case["domain"], case["agents"])
    joint = case["joint"]
    members = [(c[0], tuple(c[1:])) for c in joint if c is not None]
    if len(members) >= 2:
        r.nontrivial = True
    tags = [case["domain"], f"members{len(members)}"]
    slot_orders = list(permutations(range(len(joint)))) if len(joint) <= 3 else [tuple(range(len(joint)))]
    for st in joint_universe(w, members):
        try:
            app = [applicable(w.S, w.S.actions[n], a, st, w.objs) for n, a in members]
        except RefUndefined:
            continue
        r.seen("states", digest((case["domain"], str(joint), st.key())))
        if all(app):
            try:
                want = non_interfering(w.S, members, st, w.objs)
            except (Inconsistent, RefUndefined):
                want = None
            if want is None:
                r.outcome("skip-interfering")
                continue
            for order in slot_orders:
                slots = [joint[i] for i in order]
                got = lib_apply(w, st, slots)
                r.count("transitions")
                if isinstance(got, Raised) or not same_state(got, want):
                    r.outcome("joint-differs")
                    r.fail("joint-result", f"joint {slots} in {st.to_json()}: apply_actions gave {show(got)}, the members in "
                           f"sequence (any order) give {want.to_json()}", want.to_json(), show(got), tags=tags)
                    return
                # allowing inapplicable actions changes nothing when every member is applicable
                got_a = lib_apply(w, st, slots, allow=True)
                r.count("transitions")
                if isinstance(got_a, Raised) or not same_state(got_a, want):
                    r.outcome("joint-differs")
                    r.fail("joint-result", f"joint {slots} in {st.to_json()} with allow_inapplicable_actions=True (every member "
                           f"is applicable): apply_actions gave {show(got_a)}, expected {want.to_json()}", want.to_json(),
                           show(got_a), tags=tags + ["allow"])
                    return
            r.outcome("joint-ok")
        elif sum(1 for x in app if not x) == 1:
            for order in slot_orders[:2]:
                slots = [joint[i] for i in order]
                got = lib_apply(w, st, slots)
                r.count("transitions")
                if not (isinstance(got, Raised) and got.type == "ValueError"):
                    r.outcome("refusal-missing")
                    r.fail("refusal", f"joint {slots} in {st.to_json()}: member "
                           f"{[m for m, ok in zip(members, app) if not ok]} is inapplicable but apply_actions returned "
                           f"{show(got)}", "ValueError", show(got), tags=tags)
                    return
                got2 = lib_apply(w, st, slots, allow=True)
                r.count("transitions")
                if isinstance(got2, Raised):
                    r.outcome("allow-raised")
                    r.fail("allow", f"joint {slots} in {st.to_json()} with allow_inapplicable_actions raised {got2}",
                           "a state", got2.to_json(), tags=tags)
                    return
            r.outcome("refusal-ok")
        else:
            r.outcome("skip-several-inapplicable")


def check_single_slot(r, case):
    """one-agent joint actions: [call] and [nop]"""
    w = world(case["domain"], case["agents"])
    r.nontrivial = True
    a = w.agents[0]
    for call in [None] + w.per[a]:
        members = [] if call is None else [(call[0], tuple(call[1]))]
        for st in (joint_universe(w, members) if members else [w.RP.state()]):
            slots = [None if call is None else [call[0], *call[1]]]
            try:
                ok = all(applicable(w.S, w.S.actions[n], x, st, w.objs) for n, x in members)
                want = non_interfering(w.S, members, st, w.objs) if ok else None
            except (Inconsistent, RefUndefined):
                continue
            got = lib_apply(w, st, slots)
            r.count("transitions")
            if ok and (isinstance(got, Raised) or not same_state(got, want)):
                r.fail("single-slot", f"single-slot joint {slots} in {st.to_json()}: {show(got)}, expected {want.to_json()}",
                       want.to_json(), show(got), tags=[case["domain"], "nop" if call is None else "single"])
                return
            if not ok and not (isinstance(got, Raised) and got.type == "ValueError"):
                r.fail("refusal", f"single-slot joint {slots} inapplicable in {st.to_json()} but returned {show(got)}",
                       "ValueError", show(got), tags=[case["domain"], "single"])
                return


def check_trajectory(r, case):
    from pddl_plus_parser.multi_agent import MultiAgentTrajectoryExporter
    w = world(case["domain"], case["agents"])
    r.nontrivial = True

    # an action without parameters names no agent: it is written into the first agent's slot, as `(name)` and `(name )`
    zero = [(a.name, ()) for a in w.S.actions.values() if not a.params]

    def steps(st):
        out = []
        for joint in product(*[[None] + w.per[a] + (zero if i == 0 else []) for i, a in enumerate(w.agents)]):
            members = [c for c in joint if c is not None]
            if not members:
                out.append((joint, st))  # every agent idles: a step of its own that changes nothing
                continue
            try:
                if all(applicable(w.S, w.S.actions[n], a, st, w.objs) for n, a in members):
                    nxt = non_interfering(w.S, members, st, w.objs)
                    if nxt is not None:
                        out.append((joint, nxt))
            except (Inconsistent, RefUndefined):
                pass
        return out

    def render(j, pad=""):
        return "[" + ",".join("(nop )" if c is None else "(" + " ".join((c[0],) + tuple(c[1])) + (pad if not c[1] else "") + ")"
                              for c in j) + "]"
    s0 = w.RP.state()
    plans = []
    for j1, s1 in steps(s0):
        plans.append(([j1], [s0, s1]))
        for j2, s2 in steps(s1):
            plans.append(([j1, j2], [s0, s1, s2]))
    # a state in which the parameterless action is applicable, reached in one step
    variants = [(p, st, "") for p, st in plans]
    variants += [(p, st, " ") for p, st in plans if any(c is not None and not c[1] for j in p for c in j)]
    # the refusal switch is a property of the call, not of the exporter: strict, lenient, strict again on one exporter
    bad = None
    for joint in product(*[[None] + w.per[a] for a in w.agents]):
        members = [c for c in joint if c is not None]
        try:
            apps = [applicable(w.S, w.S.actions[n], a, s0, w.objs) for n, a in members]
        except (Inconsistent, RefUndefined):
            continue
        if members and sum(1 for x in apps if not x) == 1:
            bad = joint
            break
    if bad is not None:
        exp3 = MultiAgentTrajectoryExporter(w.D)
        outs = []
        for allow in (False, True, False):
            res = guard(lambda: exp3.parse_plan(parse_problem(w.ptext, w.D), action_sequence=[render(bad)],
                                                allow_inapplicable_actions=allow))
            outs.append("refused" if isinstance(res, Raised) else "accepted")
            r.count("histories")
        if outs != ["refused", "accepted", "refused"]:
            r.fail("refusal", f"joint plan {[render(bad)]} (one member inapplicable in the initial state) on ONE exporter with "
                   f"allow_inapplicable_actions = False, True, False: {outs}, expected ['refused', 'accepted', 'refused']",
                   ["refused", "accepted", "refused"], outs, tags=[case["domain"], "trajectory", "lenient-then-strict"])
            return
    for plan, states, pad in variants:
        lines = [render(j, pad) for j in plan]
        exp = w.__dict__.setdefault("_ma_exporter", MultiAgentTrajectoryExporter(w.D))  # one exporter for all plans
        tr = guard(lambda: exp.parse_plan(parse_problem(w.ptext, w.D), action_sequence=list(lines)))
        r.count("histories")
        if isinstance(tr, Raised) or len(tr) != len(plan):
            r.fail("trajectory-steps", f"joint plan {lines}: {tr if isinstance(tr, Raised) else len(tr)} for {len(plan)} joint "
                   f"actions", len(plan), str(tr)[:200], tags=[case["domain"], "trajectory"])
            return
        # the same plan read from a file: bracketed and plain line layout, with and without a final line end
        if not pad:
            from ..bridge import write_tmp
            plain = [" ".join("(nop )" if c is None else "(" + " ".join((c[0],) + tuple(c[1])) + ")" for c in j) for j in plan]
            for lname, ls in (("bracketed", lines), ("plain", plain)):
                for final_nl in (True, False):
                    path = write_tmp("\n".join(ls) + ("\n" if final_nl else ""), ".maplan")
                    trf = guard(lambda: MultiAgentTrajectoryExporter(w.D).parse_plan(parse_problem(w.ptext, w.D), plan_path=path))
                    r.count("histories")
                    got_states = guard(lambda: [observe_state(t.next_state) for t in trf]) if not isinstance(trf, Raised) else trf
                    ok = not isinstance(got_states, Raised) and len(got_states) == len(plan) and \
                        all(same_state(g, e) for g, e in zip(got_states, states[1:])) and \
                        all(len(t.joint_action) == len(w.agents) for t in trf)
                    if not ok:
                        r.fail("trajectory-steps", f"joint plan read from a file ({lname} layout, final line end: {final_nl}) "
                               f"{ls}: {show(got_states) if isinstance(got_states, Raised) else [s.to_json() for s in got_states]}"
                               f", expected {[s.to_json() for s in states[1:]]} with {len(w.agents)} slots per step",
                               len(plan), str(got_states)[:200], tags=[case["domain"], "trajectory", "plan-file", lname])
                        return
        for i, t in enumerate(tr):
            pre, post = guard(observe_state, t.previous_state), guard(observe_state, t.next_state)
            r.count("transitions")
            if isinstance(pre, Raised) or isinstance(post, Raised) or not same_state(pre, states[i]) \
                    or not same_state(post, states[i + 1]):
                r.fail("trajectory-state", f"joint plan {lines} step {i}: {show(pre)} -> {show(post)}, expected "
                       f"{states[i].to_json()} -> {states[i + 1].to_json()}", states[i + 1].to_json(), show(post),
                       tags=[case["domain"], "trajectory"])
                return
            tag_ok = ":init" in t.previous_state.serialize()[:8] if i == 0 else ":state" in t.previous_state.serialize()[:8]
            if not tag_ok or ":state" not in t.next_state.serialize()[:8]:
                r.fail("trajectory-text", f"joint plan {lines} step {i}: state tags {t.previous_state.serialize()[:7]} -> "
                       f"{t.next_state.serialize()[:7]}: only the first state of a trajectory is the initial state",
                       "(:init / (:state", t.next_state.serialize()[:7], tags=[case["domain"], "trajectory", "tag"])
                return
            if len(t.joint_action) != len(w.agents):
                r.fail("trajectory-slots", f"joint plan {lines} step {i}: {len(t.joint_action)} operator slots for "
                       f"{len(w.agents)} agents", len(w.agents), len(t.joint_action), tags=[case["domain"], "trajectory"])
                return
        text = guard(lambda: "".join(exp.export(tr)))
        tree = guard(sexp.read, text) if not isinstance(text, Raised) else text
        ok = not isinstance(tree, Raised) and len(tree) == 2 * len(plan) + 1
        if ok:
            for i in range(len(plan)):
                ok &= tree[2 * i + 1][0] == "operators:" and len(tree[2 * i + 1]) - 1 == len(w.agents)
                ok &= same_state(RefState.from_state_tree(tree[2 * i + 2]), states[i + 1])
        if not ok:
            r.fail("trajectory-text", f"joint plan {lines}: exported text does not read as the joint step sequence: "
                   f"{str(text)[:500]}", "same", str(tree)[:200], tags=[case["domain"], "trajectory"])
            return


def check_case(case):
    r = CaseResult()
    kind = case.get("kind", "joint")
    {"joint": check_joint, "single-slot": check_single_slot, "trajectory": check_trajectory}[kind](r, case)
    return r
