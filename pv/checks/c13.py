"""C13 -- simplified numeric conditions are valid PDDL and mean the same as the originals.

Space (bounded-exhaustive, no sampling): expression trees over + - * / up to a node bound, fluents
from five names (lifted / grounded, dashes, underscores, digits), constants from an "exact"
alphabet (sub-space E) and linear / single-product forms with near-integer and short-decimal
coefficients (sub-space R); every comparison operator; sets of 1-3 conditions with 0-2 linear
equalities; digit settings 0..6; through the five public entry points.

Oracles, all computed by pv.polyalg (exact Fractions) from the *text* the library returns:
 (i)   the text is read back by the library's own reader and, read by pv.sexp, consists of binary
       + - * /, decimal numerals and fluents of the input;
 (ii)  coefficient line: the cross-multiplied normal form of the output (lhs - rhs) is s times that
       of the input for one scale s (s > 0 for < <= > >=, s != 0 for =, s = 1 for a bare
       expression), exactly where no rounding can occur (E), else within the error that rounding
       every numeral of the output at d decimals (half a unit in the last place) can cause;
 (iii) truth line: at every point of {-2,-1/2,0,1/2,1,3}^n where the input is defined, the output
       is defined and has the same truth value (exact Fractions; in rounding mode only where the
       output's truth value cannot be changed by perturbing its numerals by half a unit);
 (iv)  sets: the conjunction of the printed conditions has the same truth value as the conjunction
       of the inputs at every such point and at the points obtained by solving each input equality
       for each fluent it is linear in (the other fluents on the grid); printed equalities match
       input equalities coefficient-wise; without equalities every member matches and is matched.
Failures carry the entry point and a defect-class tag (MATCHERS has one predicate per class).
"""
import json
import os
import subprocess
import sys
from fractions import Fraction
from itertools import product

from .. import sexp
from .. import polyalg as pa
from ..bridge import guard, Raised, PDDLTokenizer, REPO
from ..gens import exprs as G
from ..runner import CaseResult

from pddl_plus_parser.models import (PDDLFunction, PDDLType, NumericalExpressionTree, Precondition,  # noqa: E402
                                     construct_expression_tree)
from pddl_plus_parser.models import numeric_symbolic_operations as NSO  # noqa: E402

ID = "C13"
TITLE = "Simplified numeric conditions are valid PDDL and mean the same as the originals"
CASE_TIMEOUT = 120
MAX_FAILS_PER_CASE = 3

FLUENTS = [["x"], ["y", "?a"], ["fuel-level", "?t1"], ["load_limit", "?z"], ["g2", "o1", "o-2"]]
CE = ["0", "1", "-1", "2", "3", "0.5", "-0.25"]                       # exact alphabet
CE_SMALL = ["2", "0.5", "-1"]
CE_TINY = ["2", "-0.25"]
CR = ["2.99999", "3.00001", "0.99999", "1.00001", "-1.99999", "-2.00001", "0.00001", "-0.00001",
      "0.12", "2.5", "0.005", "9.99999", "20.4"]   # the last two round to multiples of ten at 0 digits                                           # rounding alphabet
CR_SECOND = ["2.99999", "0.12", "-0.00001", "1.00001"]
KR = ["1", "0.12", "2.99999"]
INEQ = ["<=", ">=", "<", ">"]
ALL_OPS = INEQ + ["="]
GRID = [Fraction(-2), Fraction(-1, 2), Fraction(0), Fraction(1, 2), Fraction(1), Fraction(3)]
DIGITS_ALL = [0, 1, 2, 3, 4, 5, 6]

RULE = ("sub-space E: all expression trees with 1, 3, 5 (quick) / 1, 3, 5, 7 (thorough) nodes over + - * /, "
        "fluent leaves numbered in first-occurrence order (<= 4 distinct, names rotated over 5 spellings), "
        "constants {0,1,-1,2,3,0.5,-0.25} (5-node trees, quick: {2,0.5,-1} with (non-constant, constant) operand "
        "order for + and *; 7-node trees: {2,-0.25}, same order rule), syntactic degree <= 3, divisor a non-zero "
        "constant / fluent / product of two fluents, no constant-only subtrees (plus 4 constant-only expressions and "
        "5 with a constant-only operand such as x*(5-2)); "
        "each as a bare expression and as lhs of a condition with rhs rotating over {0, 1, 0.5, a used fluent, a "
        "new fluent} and operator rotating over < <= > >= plus '=' always (all 5 operators and 3 rhs for <= 3 "
        "nodes); digits {4,6} (quick) / {4,5,6} (thorough). sub-space R: c*x, c*x*y, c*x+k, c*x+c'*y with c from "
        "8 near-integers k+-1e-5 and 0.12, 2.5, 0.005 (c' from 4 (quick) / all 11), k from {1,0.12,2.99999}, "
        "rhs from {0, 2.5}, every digit setting 0..6. Entry points per input: "
        "simplify_complex_numeric_expression, simplify_inequality, simplify_equality, "
        "NumericalExpressionTree.simplify_complex_numerical_pddl_expression, Precondition.print(True, d) of the "
        "single condition. Sets: 1-3 conditions from a menu of 6 linear equalities (= (+ a b) k) and 13 "
        "inequalities over <= 4 fluents (duplicates, implied and contradictory members, eliminable and "
        "non-eliminable equalities), all multisets within the size bound (quick: <= 1 inequality next to two "
        "equalities), digits {2,4,6} (E) / 0..6 (R menu). Default-digit configuration: NUMERIC_PRECISION in "
        "{unset, 3} in a fresh interpreter. non-trivial = some returned text differs from the plain prefix "
        "rendering of the input")
ASSUMPTIONS = [
    "the grid {-2,-1/2,0,1/2,1,3}^n (for sets with equalities: plus points solved from each equality) is the "
    "ground truth for truth-value agreement; proportionality of exact normal forms certifies agreement at all "
    "valuations where it holds",
    "an output that is equivalent to the input without being a constant multiple of it (x*x*x <= 0 printed as "
    "x <= 0) would be reported as not proportional; no such output occurs, the library only applies ring identities",
    "valuations at which the input itself divides by zero are outside the quantifier; an output may be defined there",
    "rounding of a numeral means to the nearest multiple of 10^-d (error <= 0.5*10^-d + 1e-9); a term may vanish "
    "only if its coefficient is within that bound of 0, a factor only if it is within that bound of 1; any "
    "positive rescaling of a condition is accepted; errors are bounded on the coefficients of lhs - rhs after "
    "normalisation, so two numerals whose errors cancel (2.99999 and 2.5 both printed as 2 at 0 digits) pass",
    "exact equivalence is demanded only in sub-space E at digit settings where every coefficient of the input's "
    "normal form is representable and no printed member needed rounding after rescaling (3*x = 1 -> x = 0.3333)",
    "comparison semantics is exact (no epsilon); in rounding mode a point is judged only if the printed "
    "condition's truth value is stable under half-unit perturbations of its numerals",
    "fluent spellings whose symbol names collide after deleting '-', '?', blanks and parentheses "
    "(e.g. (a-b c) / (ab c)) are outside the five-name alphabet",
    "sets with elimination: printed inequalities are judged by the truth line only (the coefficient line would "
    "need ideal membership); printed equalities are matched coefficient-wise",
]

_TYPE = PDDLType("object")
FUNCS = {
    "x": PDDLFunction(name="x", signature={}),
    "y": PDDLFunction(name="y", signature={"?p": _TYPE}),
    "fuel-level": PDDLFunction(name="fuel-level", signature={"?p": _TYPE}),
    "load_limit": PDDLFunction(name="load_limit", signature={"?p": _TYPE}),
    "g2": PDDLFunction(name="g2", signature={"?p": _TYPE, "?q": _TYPE}),
}


# =============================================================================== enumeration

def _instantiate_cond(cond, names):
    return [cond[0], G.instantiate(cond[1], names), G.instantiate(cond[2], names)]


def _names(rot):
    return [FLUENTS[(rot + i) % len(FLUENTS)] for i in range(len(FLUENTS))]


def _rhs_menu(nslots):
    menu = ["0", "1", "0.5"]
    if nslots:
        menu.append(["$", 0])
    if nslots < 4:
        menu.append(["$", nslots])
    return menu


def _expr_cases(tier):
    quick = tier == "quick"
    digits = [4, 6] if quick else [4, 5, 6]
    idx = 0
    plan = [(1, CE, False), (3, CE, False), (5, CE_SMALL if quick else CE, quick)]
    if quick:
        plan.append((5, ["0", "1"], False))  # vanishing and neutral terms (0 / x, x * 0, x - 0, x / 1 ...) at every position
    if not quick:
        plan.append((7, CE_TINY, True))
    for n, consts, ordered in plan:
        for t in G.trees(n, consts, ordered_commutative_leaves=ordered):
            ns = G.n_slots(t)
            menu = _rhs_menu(ns)
            if n <= 3:
                rhss = [menu[0], menu[1 + idx % 2], menu[-1]]
                ops = list(ALL_OPS)
            else:
                rhss = [menu[idx % len(menu)]]
                ops = [INEQ[idx % 4], "="]
            names = _names(idx % 5)
            for k, rhs in enumerate(rhss):
                yield {"kind": "expr", "sub": "E", "expr": G.instantiate(t, names),
                       "rhs": G.instantiate(rhs, names), "ops": ops, "digits": digits,
                       "bare": k == 0, "tags": ["E", f"n{n}"]}
            idx += 1
    f = ["$", 0]
    for t in (["+", "2", "1"], ["*", "0.5", "3"], ["-", "1", "1"], ["/", "3", "2"],
              ["*", f, ["-", "5", "2"]], ["*", f, ["+", "1", "2"]], ["+", f, ["-", "3", "1"]], ["-", ["-", "3", "1"], f],
              ["*", f, ["-", "0.5", "2"]]):
        names = _names(idx % 5)
        yield {"kind": "expr", "sub": "E", "expr": G.instantiate(t, names), "rhs": G.instantiate(["$", 1], names),
               "ops": ["<=", "="], "digits": digits, "bare": True, "tags": ["E", "const"]}
        idx += 1


def _r_forms(tier):
    X, Y = ["$", 0], ["$", 1]
    for c in CR:
        yield ["*", X, c], "cx"
    for c in CR:
        yield ["*", ["*", X, Y], c], "cxy"
    for c in CR:
        for k in KR:
            yield ["+", ["*", X, c], k], "cx+k"
    for c in CR:
        for c2 in (CR_SECOND if tier == "quick" else CR):
            yield ["+", ["*", X, c], ["*", Y, c2]], "cx+cy"


def _round_cases(tier):
    idx = 0
    for idx, (t, form) in enumerate(_r_forms(tier)):
        names = _names(idx % 5)
        rhs = ["0", "2.5"][idx % 2]
        yield {"kind": "expr", "sub": "R", "expr": G.instantiate(t, names), "rhs": rhs,
               "ops": [INEQ[idx % 4], "="], "digits": DIGITS_ALL, "bare": True, "tags": ["R", form]}
    # a numeral on the left: k op c*x
    for k in ("0.005", "0.12", "2.99999"):
        for c in ("0.12", "1.00001", "-1.99999"):
            idx += 1
            names = _names(idx % 5)
            yield {"kind": "expr", "sub": "R", "expr": k, "rhs": G.instantiate(["*", ["$", 0], c], names),
                   "ops": [INEQ[idx % 4], "="], "digits": DIGITS_ALL, "bare": False, "tags": ["R", "k?cx"]}


def _set_menus(sub):
    a, b, c, d = (["$", i] for i in range(4))
    if sub == "E":
        eqs = [
            ["=", ["+", a, b], "1"],                       # a := 1 - b
            ["=", ["+", a, b], "0"],                       # a := -1 * b
            ["=", ["+", b, c], "2.5"],                     # b := 2.5 - c
            ["=", ["+", ["*", "2", a], b], "1"],           # (2*a) := 1 - b : compound eliminated term
            ["=", ["+", a, ["*", c, c]], "0"],             # a := -(c*c): non-linear replacement
            ["=", ["-", a, b], "0"],                       # not eliminable (lhs is not a sum)
            ["=", ["-", a, b], "1"],                       # a difference equal to a non-zero numeral ...
            ["=", ["-", a, b], c],                         # ... and to a fluent: a = c + b, never c - b
            ["=", ["+", a, b], c],                         # a sum equal to a fluent: a = c - b
            ["=", ["+", a, b], ["*", "3", c]],
        ]
        ineqs = [
            ["<=", a, "3"],
            [">=", ["+", a, b], "1"],                      # implied by / contradicting eq 0 / eq 1
            ["<", ["*", a, c], "2"],
            ["<=", ["-", a, c], "0"],
            [">", ["+", ["*", a, a], b], "1"],
            [">=", ["*", "2", a], c],
            ["<=", ["/", a, c], "1"],
            ["<", ["+", ["*", "0.5", a], d], b],
            [">", ["*", ["+", a, b], c], "-1"],
            ["<=", "1", a],                                # numeral on the left
            ["<=", ["+", a, "0"], "3"],                    # same condition as the first, written differently
            [">=", b, ["*", "-0.25", a]],
            ["<", ["-", a, b], "2"],                       # a - b: what a wrong-sign elimination would rewrite
        ]
    else:
        eqs = [
            ["=", ["+", a, b], "2.99999"],
            ["=", ["+", a, b], "0.00001"],
            ["=", ["+", ["*", "0.12", a], b], "2.5"],
        ]
        ineqs = [
            ["<=", ["*", a, "2.99999"], "1"],
            [">", ["+", ["*", a, "0.12"], ["*", c, "1.00001"]], "0.005"],
            ["<", ["*", ["*", a, c], "2.5"], "3.00001"],
            [">=", ["+", a, c], "0.99999"],
            # twins that differ only beyond the 4th decimal and do not imply one another
            ["<=", ["+", ["*", "1.00001", a], ["*", "0.99999", b]], "3"],
            ["<=", ["+", ["*", "0.99999", a], ["*", "1.00001", b]], "3"],
        ]
    return eqs, ineqs


def _set_cases(tier):
    quick = tier == "quick"
    idx = 0
    for sub in ("E", "R"):
        eqs, ineqs = _set_menus(sub)
        digits = [2, 4, 6] if sub == "E" else DIGITS_ALL
        ni, ne = len(ineqs), len(eqs)
        combos = []
        for i in range(ni):
            combos.append(([], [i]))
        for i in range(ni):
            for j in range(i, ni):
                combos.append(([], [i, j]))
        if sub == "E" and not quick:
            for i in range(ni):
                for j in range(i, ni):
                    for k in range(j, ni):
                        if len({i, j, k}) >= 2:
                            combos.append(([], [i, j, k]))
        for e in range(ne):
            combos.append(([e], []))
            for i in range(ni):
                combos.append(([e], [i]))
            for i in range(ni):
                for j in range(i, ni):
                    combos.append(([e], [i, j]))
        for e in range(ne):
            for f in range(e, ne):
                combos.append(([e, f], []))
                for i in range(ni):
                    if quick and sub == "E" and (i + e + f) % 3:
                        continue
                    combos.append(([e, f], [i]))
        for es, is_ in combos:
            names = _names(idx % 5)
            conds = [_instantiate_cond(eqs[e], names) for e in es] + \
                    [_instantiate_cond(ineqs[i], names) for i in is_]
            # members are added to a Python set by the library; the order of insertion is rotated
            rot = idx % len(conds)
            conds = conds[rot:] + conds[:rot]
            fluent_rhs = any(not isinstance(eqs[e][2], str) for e in es)
            division = any("'/'" in repr(ineqs[i]) for i in is_)
            yield {"kind": "set", "sub": sub, "conds": conds, "digits": digits,
                   "tags": [sub, f"eq{len(es)}", f"ineq{len(is_)}"]
                   + (["eq-fluent-rhs-with-division"] if fluent_rhs and division else [])}
            idx += 1


def _env_cases(tier):
    x, y = FLUENTS[0], FLUENTS[2]
    inputs = [
        ["<=", ["+", x, y], "3"],
        ["<=", ["*", x, "0.5"], y],
        ["=", ["+", ["*", x, "2.5"], y], "1"],
        ["<", ["*", ["*", x, y], "0.12345"], "2"],
        ["=", ["+", x, y], "0"],
    ]
    for env in (None, "3"):
        yield {"kind": "env", "sub": "E", "env": env, "conds": inputs, "tags": ["env", str(env)]}


COLLIDING = [(["fuel-level", "?t1"], ["fuel-level", "t1"]), (["y", "?a"], ["y", "a"]),
             (["load_limit", "?z"], ["load_limit", "z"]), (["g2", "o1", "o-2"], ["g2", "o1", "o2"]),
             (["g2", "?o1", "?o2"], ["g2", "o1", "o2"]), (["fuel-level", "?t1"], ["fuel-level", "?t-1"])]


def _seq_cases(tier):
    """histories of calls in one process over fluent texts that differ only in '?', '-' or blanks (a lifted term and its
    grounding): every call is judged against its own input, whatever was simplified before it"""
    x = FLUENTS[0]
    forms = [lambda f: ["<=", ["+", f, "1"], "3"], lambda f: [">", ["*", f, "2"], x],
             lambda f: ["=", ["+", f, x], "1"], lambda f: ["<", ["-", ["*", f, f], x], "2"]]
    for pi, (fa, fb) in enumerate(COLLIDING):
        for fi, form in enumerate(forms):
            for order in ("ABA", "BAB", "AAB"):
                seq = [form(fa if ch == "A" else fb) for ch in order]
                yield {"kind": "seq", "sub": "E", "seq": seq, "order": order, "digits": [4],
                       "tags": ["seq", order, f"pair{pi}", f"form{fi}"]}


def _edit_cases(tier):
    """edit histories of one precondition object: print, take a condition out (of the conjunction or of a nested
    disjunction, through the enclosing precondition) or put one in, print again"""
    a, b, c = (["$", i] for i in range(3))
    conds = [["<=", a, "3"], [">=", ["*", "2", a], ["+", a, "1"]], ["<", ["-", b, a], "2"], [">", ["*", a, c], "-1"],
             ["<=", ["+", ["*", "0.5", a], b], "4"]]
    idx = 0
    for outer in ([0], [0, 2]):
        for inner in ([1, 3], [1, 2, 4], [3, 4]):
            for victim_in_inner in (True, False):
                names = _names(idx % 5)
                idx += 1
                yield {"kind": "edit", "sub": "E", "digits": [2, 4],
                       "outer": [_instantiate_cond(conds[i], names) for i in outer],
                       "inner": [_instantiate_cond(conds[i], names) for i in inner if i not in outer],
                       "victim_in_inner": victim_in_inner, "tags": ["edit", "inner" if victim_in_inner else "outer"]}


def cases(tier):
    out = []
    out.extend(_edit_cases(tier))
    out.extend(_seq_cases(tier))
    out.extend(_expr_cases(tier))
    out.extend(_round_cases(tier))
    out.extend(_set_cases(tier))
    out.extend(_env_cases(tier))
    for c in out:
        c["pre"] = _describe(c)
    return out


def _describe(c):
    if c["kind"] == "edit":
        f = lambda cs: " ".join(f"({o} {G.to_pddl(l)} {G.to_pddl(r)})" for o, l, r in cs)
        return f"(and {f(c['outer'])} (or {f(c['inner'])})) edited"
    if c["kind"] == "seq":
        return " ; then ".join(f"({o} {G.to_pddl(l)} {G.to_pddl(r)})" for o, l, r in c["seq"])
    if c["kind"] == "expr":
        return f"{G.to_pddl(c['expr'])} ? {G.to_pddl(c['rhs'])}"
    return " & ".join(f"({o} {G.to_pddl(l)} {G.to_pddl(r)})" for o, l, r in c["conds"])


# =============================================================================== library driving

def lib_read(text):
    """The library's own reader on a printed expression / condition."""
    stripped = text.strip()
    if not stripped.startswith("("):
        return construct_expression_tree(stripped, FUNCS)
    return construct_expression_tree(PDDLTokenizer(pddl_str=text).parse(), FUNCS)


def lib_tree(op, lhs, rhs):
    text = f"({op} {G.to_pddl(lhs)} {G.to_pddl(rhs)})"
    return NumericalExpressionTree(construct_expression_tree(PDDLTokenizer(pddl_str=text).parse(), FUNCS))


def call_scne(expr, d):
    return NSO.simplify_complex_numeric_expression(G.to_math(expr), decimal_digits=d)


def call_ineq(op, lhs, rhs, d):
    return NSO.simplify_inequality(f"({G.to_math(lhs)} {op} {G.to_math(rhs)})", op, decimal_digits=d)


def call_eq(lhs, rhs, d):
    return NSO.simplify_equality(f"{G.to_math(lhs)} = {G.to_math(rhs)}", decimal_digits=d)


def call_tree(op, lhs, rhs, d):
    return lib_tree(op, lhs, rhs).simplify_complex_numerical_pddl_expression(decimal_digits=d)


def call_print(conds, d):
    pre = Precondition("and")
    for op, lhs, rhs in conds:
        pre.add_condition(lib_tree(op, lhs, rhs))
    if d is None:
        return pre.print(should_simplify=True)
    return pre.print(should_simplify=True, decimal_digits=d)


# =============================================================================== reference side

def radius(d):
    return Fraction(1, 2 * 10 ** d) + Fraction(1, 10 ** 9)


def representable(polys, d):
    q = 10 ** d
    return all((c * q).denominator == 1 for p in polys for c in p.values())


class Cond:
    """A condition lhs op rhs (op None: a bare expression), from trees, with everything the oracles
    need, computed once."""

    def __init__(self, op, lhs, rhs):
        self.op, self.lhs, self.rhs = op, lhs, rhs
        self.tree = lhs if rhs is None else ["-", lhs, rhs]
        self.nf = pa.from_tree(self.tree)
        self.fluents = pa.fluents(self.tree)
        self._err = {}

    def value(self, val):
        """lhs - rhs (exact) or None where some division is by zero"""
        return pa.eval_tree(self.tree, val)

    def err_nf(self, r, hidden_units=True):
        """(N, D, EN, ED) of lhs - rhs with every numeral uncertain by r (pa.from_tree_with_error);
        hidden_units: a term without numerals counts as 1 * term"""
        key = (r, hidden_units)
        if key not in self._err:
            self._err[key] = pa.from_tree_with_error(
                pa.with_unit_factors(self.tree) if r and hidden_units else self.tree, r)
        return self._err[key]

    def text(self):
        if self.op is None:
            return G.to_pddl(self.lhs)
        return f"({self.op} {G.to_pddl(self.lhs)} {G.to_pddl(self.rhs)})"


def holds(op, v):
    if op == "<=":
        return v <= 0
    if op == ">=":
        return v >= 0
    if op == "<":
        return v < 0
    if op == ">":
        return v > 0
    if op == "=":
        return v == 0
    raise AssertionError(op)


def grid_points(fluents):
    for combo in product(GRID, repeat=len(fluents)):
        yield dict(zip(fluents, combo))


def same_text(a, b):
    """same S-expression up to layout and the spelling of numerals"""
    def norm(t):
        if isinstance(t, str):
            return Fraction(t) if pa.is_numeral(t) else t
        return [norm(x) for x in t]
    try:
        return norm(sexp.read(a)) == norm(sexp.read(b))
    except sexp.SexpError:
        return False


def solved_points(inputs, fluents):
    """Extra evaluation points for sets: for every input equality and every fluent it is linear in, the
    grid over the other fluents with that fluent solved from the equality -- points on the equality's
    solution set, where elimination matters (the plain grid meets it rarely)."""
    seen = set()
    for c in inputs:
        if c.op != "=":
            continue
        num, den = c.nf
        for v in c.fluents:
            alpha, beta, linear = {}, {}, True
            for m, coef in num.items():
                e = dict(m).get(v, 0)
                if e == 0:
                    beta[m] = coef
                elif e == 1:
                    alpha[tuple(x for x in m if x[0] != v)] = coef
                else:
                    linear = False
            if not linear or not alpha:
                continue
            others = [f for f in fluents if f != v]
            for combo in product(GRID, repeat=len(others)):
                val = dict(zip(others, combo))
                val[v] = Fraction(0)
                a = pa.p_eval(alpha, val)
                if a == 0:
                    continue
                val[v] = -pa.p_eval(beta, val) / a
                key = tuple(val[f] for f in fluents)
                if key in seen or all(x in GRID for x in key):
                    continue
                seen.add(key)
                yield val


class Structure(Exception):
    def __init__(self, clause, detail, tags):
        super().__init__(detail)
        self.clause, self.detail, self.tags = clause, detail, tags


def read_output(text, allowed_fluents, want_condition, want_op=None):
    """Oracle (i).  Returns (op, lhs, rhs) for a condition or (None, tree, None) for an expression."""
    if not isinstance(text, str):
        raise Structure("unreadable-output", f"returned {type(text).__name__} instead of text", ["not-a-string"])
    try:
        tree = sexp.read(text)
    except sexp.SexpError as e:
        raise Structure("unreadable-output", f"not one S-expression: {text!r} ({e})", ["sexp"])
    if want_condition:
        if not isinstance(tree, list) or len(tree) != 3 or tree[0] not in ALL_OPS:
            raise Structure("unreadable-output", f"not a binary comparison: {text!r}", ["not-a-comparison"])
        if want_op is not None and tree[0] != want_op:
            raise Structure("operator-changed", f"{want_op} printed as {tree[0]}: {text!r}", ["operator"])
        parts = [tree[1], tree[2]]
    else:
        parts = [tree]
    for p in parts:
        try:
            pa.validate(p, allowed_fluents)
        except pa.TreeError as e:
            tags = [e.kind]
            if "none" in str(e.what):
                tags.append("none-operand")
            clause = e.kind if e.kind in ("power-operator", "non-binary-operator") else "foreign-leaf"
            raise Structure(clause, f"{e} in {text!r}", tags)
    got = guard(lib_read, text)
    if isinstance(got, Raised):
        tags = ["library-reader", f"exc:{got.type}"]
        if want_condition and all(isinstance(p, str) for p in parts):
            tags.append("numeral-vs-numeral")
        raise Structure("unreadable-output", f"the library's reader rejects {text!r}: {got}", tags)
    if want_condition:
        return tree[0], tree[1], tree[2]
    return None, tree, None


class Judgement:
    """Coefficient line + truth line for one input condition against one printed condition."""

    def __init__(self, inp: Cond, out: Cond, d, exact_space):
        self.inp, self.out, self.d = inp, out, d
        self.mode = None          # "exact" | "rounded"
        self.scale = None
        n1, d1 = inp.nf
        exact_first = exact_space and representable([n1, d1], d)
        self.exact_expected = exact_first
        for r in ([Fraction(0)] if exact_first else []) + [radius(d)]:
            got = self._fit(r)
            if got is not None:
                self.mode = "exact" if r == 0 else "rounded"
                self.scale = got
                return

    def _fit(self, r, keep=True, hidden_units=True):
        """Is the output the input times a scale, if every numeral of the output (including a factor 1
        left out of a term without numerals) may be off by r?"""
        inp, out = self.inp, self.out
        n1, d1 = inp.nf
        n2, d2, en, ed = out.err_nf(r, hidden_units)
        a, b = pa.p_mul(n1, d2), pa.p_mul(n2, d1)
        e1, e2 = pa.p_mul(en, pa.p_abs(d1)), pa.p_mul(pa.p_abs(n1), ed)
        floor = r
        if inp.op is None:
            got = pa.feasible_scale(a, b, e1, e2, fixed=1, floor=floor)
        else:
            got = pa.feasible_scale(a, b, e1, e2, floor=floor)
            if got is None and inp.op == "=":
                got = pa.feasible_scale(a, b, e1, e2, positive=False, floor=floor)
        if keep:
            self.a, self.b, self.r = a, b, r
            self.d1, self.d2, self.ed = d1, d2, ed
            # bound on |B - B*| at a point: error of the numerals + vanished terms
            eb = dict(e1)
            for m in a:
                if m not in b:
                    eb[m] = eb.get(m, 0) + floor
            self.eb = {m: c for m, c in eb.items() if c}
        return got

    def explained_by_truncation(self):
        """Would the output fit if numerals had been cut to integers (error < 1) instead of rounded?"""
        return self._fit(Fraction(1), keep=False, hidden_units=False) is not None

    def coefficient_ok(self):
        return self.mode is not None

    def truth_line(self):
        """-> (n_points_judged, n_skipped, first disagreement or None)"""
        inp, out = self.inp, self.out
        fl = list(inp.fluents)
        judged = skipped = 0
        exact = self.mode == "exact"
        neg = self.scale is not None and self.scale[1] is not None and self.scale[1] < 0
        for val in grid_points(fl):
            v1 = inp.value(val)
            if v1 is None:
                continue
            v2 = out.value(val)
            if v2 is None:
                return judged, skipped, ("output-undefined", val, v1, None)
            if inp.op is None:
                # a bare expression: the values agree (within what rounding the numerals can cause)
                bound = 0 if exact else (pa.p_abs_eval(self.eb, val)
                                         + pa.p_abs_eval(pa.p_mul(pa.p_abs(inp.nf[0]), self.ed), val))
                judged += 1
                if abs(pa.p_eval(self.a, val) - pa.p_eval(self.b, val)) > bound:
                    return judged, skipped, ("value", val, v1, v2)
                continue
            t1 = holds(inp.op, v1)
            t2 = holds(inp.op, v2)
            if not exact:
                # is the printed condition's truth value stable under half-unit perturbations?
                bval = pa.p_eval(self.b, val)
                stable = abs(bval) > pa.p_abs_eval(self.eb, val) and \
                    abs(pa.p_eval(self.d2, val)) > pa.p_abs_eval(self.ed, val)
                if not stable:
                    skipped += 1
                    continue
            judged += 1
            if t1 != t2:
                return judged, skipped, ("truth", val, t1, t2)
        return judged, skipped, None


def fmt_val(val):
    return "{" + ", ".join(f"({' '.join(k)})={v}" for k, v in val.items()) + "}"


# =============================================================================== defect classes

def input_numerals(trees):
    out = []
    for t in trees:
        out.extend(pa.numerals(t))
    return out


def rounding_tags(numerals, d):
    """Which rounding hazards does the input contain at d digits?  (defect-class tags only; no oracle
    depends on them)"""
    tags = set()
    half = Fraction(1, 2 * 10 ** d)
    for s in numerals:
        v = Fraction(s)
        if v == 0:
            continue
        nearest = round(float(v), d)
        if nearest.is_integer() and int(float(v)) != nearest:
            tags.add("int-truncation")
        if abs(v) <= half or (nearest.is_integer() and int(float(v)) == 0):
            tags.add("zero-coefficient")
    return sorted(tags)


def has_integer_subtraction(tree):
    """(- 5 2): printed by the library as '(5 - 2)', which its fluent pattern also matches"""
    if isinstance(tree, str) or tree[0] not in pa.OPS:
        return False
    if tree[0] == "-" and all(isinstance(x, str) and "." not in x for x in tree[1:]):
        return True
    return any(has_integer_subtraction(x) for x in tree[1:])


def defect_tags(inp_trees, d, truncation_explains):
    if truncation_explains:
        return ["int-truncation"]
    if any(has_integer_subtraction(t) for t in inp_trees):
        return ["integer-subtraction-read-as-fluent"]
    return rounding_tags(input_numerals(inp_trees), d) or ["unexplained"]


def raised_tags(got: Raised):
    tags = [f"exc:{got.type}"]
    m = got.msg
    if got.type == "KeyError" and ("Half" in m or "Rational" in m):
        tags.append("rational-coefficient")
    elif got.type == "KeyError" and "Infinity" in m:
        tags.append("division-by-zero")
    elif got.type == "KeyError" and "<class" not in m and m.strip("'\"") not in ALL_OPS:
        tags.append("compound-power-base")
    elif got.type == "AttributeError" and "Boolean" in m:
        tags.append("constant-truth-value")
    elif got.type == "AttributeError" and "NoneType" in m:
        tags.append("no-fluent")
    elif got.type == "TypeError" and "expected string" in m:
        tags.append("numeral-lhs")
    elif got.type == "TypeError":
        tags.append("digits-type")
    return tags


# =============================================================================== the check

class Ctx:
    def __init__(self, r: CaseResult, case):
        self.r, self.case = r, case
        self.judged_cache = {}

    def fail(self, clause, detail, expected=None, observed=None, tags=()):
        if len(self.r.fails) < MAX_FAILS_PER_CASE:
            self.r.fail(clause, detail, expected, observed, tags)
        else:
            self.r.count("fails_suppressed")
        self.r.outcome("FAIL:" + clause)


def judge_single(ctx: Ctx, entry, inp: Cond, got, d, call_text, exact_space, digits_tag=None):
    """All oracles for one returned text against one input condition / expression."""
    r = ctx.r
    sub = ctx.case["sub"]
    base_tags = [entry]
    if isinstance(got, Raised):
        r.outcome("raised")
        ctx.fail("raised", f"{entry} d={d}: {call_text} raised {got}", "text", got.to_json(),
                 base_tags + raised_tags(got))
        return
    if got is None:
        if inp.op == "=" and pa.r_is_zero(inp.nf):
            r.outcome("omitted-identity")
            return
        r.outcome("omitted-wrongly")
        ctx.fail("condition-dropped", f"{entry} d={d}: {call_text} returned None but the condition is not an identity",
                 "a condition", None, base_tags + ["none-returned"])
        return
    if isinstance(got, str) and not same_text(got, inp.text()):
        r.nontrivial = True
    try:
        op, lhs, rhs = read_output(got, inp.fluents, inp.op is not None, inp.op)
    except Structure as s:
        r.outcome("malformed-output")
        extra = rounding_tags(input_numerals([inp.tree]), d) if "none-operand" in s.tags else []
        if s.clause == "foreign-leaf" and has_integer_subtraction(inp.tree):
            extra.append("integer-subtraction-read-as-fluent")
        ctx.fail(s.clause, f"{entry} d={d}: {call_text} -> {s.detail}", "binary + - * / over numerals and fluents",
                 got, base_tags + s.tags + extra)
        return
    key = (inp.text(), got, d)
    if key in ctx.judged_cache:
        verdict = ctx.judged_cache[key]
    else:
        out = Cond(op, lhs, rhs)
        j = Judgement(inp, out, d, exact_space)
        judged, skipped, bad = j.truth_line()
        trunc = j.mode is None and j.explained_by_truncation()
        verdict = (j.mode, j.exact_expected, j.scale, judged, skipped, bad, trunc)
        ctx.judged_cache[key] = verdict
    mode, exact_expected, scale, judged, skipped, bad, trunc = verdict
    r.count("grid_points_judged", judged)
    r.count("grid_points_skipped_boundary", skipped)
    clause = "inequivalent-exact" if exact_expected else "inequivalent-rounding"
    if mode is None:
        r.outcome("coefficients-differ")
        tags = base_tags + ["coefficients"] + defect_tags([inp.tree], d, trunc)
        tags.append("grid-agrees" if bad is None else "grid-disagrees")
        where = "" if bad is None else f"; e.g. at {fmt_val(bad[1])}: input {bad[2]}, output {bad[3]}"
        ctx.fail(clause, f"{entry} d={d}: {call_text} -> {got!r}: lhs-rhs is not "
                 f"{'equal' if inp.op is None else 'a positive multiple' if inp.op != '=' else 'a multiple'} of the "
                 f"input's{'' if exact_expected else f' within rounding at {d} digits'}{where}",
                 inp.text(), got, tags)
        return
    if bad is not None:
        kind, val, v1, v2 = bad
        if mode == "exact" and kind != "output-undefined":
            raise AssertionError(f"polyalg certifies {got!r} for {inp.text()} but they differ at {fmt_val(val)}")
        r.outcome("truth-differs")
        tags = base_tags + [kind] + defect_tags([inp.tree], d, False)
        ctx.fail("output-undefined" if kind == "output-undefined" else clause,
                 f"{entry} d={d}: {call_text} -> {got!r}: at {fmt_val(val)} input gives {v1}, output {v2}",
                 inp.text(), got, tags)
        return
    if mode == "exact":
        r.outcome("equivalent-exact")
    elif exact_expected:
        r.outcome("equivalent-rounded-in-E")
    else:
        r.outcome("equivalent-rounded")


def check_expr(case, r):
    ctx = Ctx(r, case)
    expr, rhs = case["expr"], case["rhs"]
    exact_space = case["sub"] == "E"
    r.count("states")
    e_in = Cond(None, expr, None)
    for d in case["digits"]:
        if case.get("bare"):
            got = guard(call_scne, expr, d)
            r.count("transitions")
            judge_single(ctx, "simplify_complex_numeric_expression", e_in, got, d, repr(G.to_math(expr)), exact_space)
    conds = {op: Cond(op, expr, rhs) for op in case["ops"]}
    for op, c in conds.items():
        r.count("states")
        for d in case["digits"]:
            text = f"({G.to_math(expr)} {op} {G.to_math(rhs)})"
            if op == "=":
                got = guard(call_eq, expr, rhs, d)
                r.count("transitions")
                judge_single(ctx, "simplify_equality", c, got, d, repr(text[1:-1]), exact_space)
            else:
                got = guard(call_ineq, op, expr, rhs, d)
                r.count("transitions")
                judge_single(ctx, "simplify_inequality", c, got, d, repr(text), exact_space)
            if isinstance(guard(lib_tree, op, expr, rhs), Raised):
                # the library's reader does not take this input (a comparison of two numerals)
                r.outcome("input-not-readable-by-library")
                continue
            got = guard(call_tree, op, expr, rhs, d)
            r.count("transitions")
            judge_single(ctx, "tree.simplify_complex_numerical_pddl_expression", c, got, d, c.text(), exact_space)
            got = guard(call_print, [(op, expr, rhs)], d)
            r.count("transitions")
            judge_set(ctx, "Precondition.print", [c], got, d, exact_space)
    return r


# ----------------------------------------------------------------------------------- sets

def split_print(text):
    """'(and c1 c2 ...)' -> list of (text, tree) per printed condition"""
    tree = sexp.read(text)
    if not isinstance(tree, list) or not tree or tree[0] != "and":
        raise Structure("unreadable-output", f"not a conjunction: {text!r}", ["not-a-conjunction"])
    return [(sexp.dumps(t), t) for t in tree[1:]]


def judge_set(ctx: Ctx, entry, inputs, got, d, exact_space):
    r = ctx.r
    desc = " & ".join(c.text() for c in inputs)
    base_tags = [entry]
    numerals = input_numerals([c.tree for c in inputs])
    if isinstance(got, Raised):
        r.outcome("raised")
        ctx.fail("raised", f"{entry} d={d}: {desc} raised {got}", "text", got.to_json(), base_tags + raised_tags(got))
        return
    fluents = []
    for c in inputs:
        for f in c.fluents:
            if f not in fluents:
                fluents.append(f)
    plain = "(and " + "\n\t".join(sorted({c.text() for c in inputs})) + ")"
    if not same_text(got, plain):
        r.nontrivial = True
    try:
        try:
            printed = split_print(got)
        except sexp.SexpError as e:
            raise Structure("unreadable-output", f"not one S-expression: {got!r} ({e})", ["sexp"])
        outs = []
        for text, _ in printed:
            op, lhs, rhs = read_output(text, fluents, True)
            outs.append(Cond(op, lhs, rhs))
    except Structure as s:
        r.outcome("malformed-output")
        extra = rounding_tags(numerals, d) if "none-operand" in s.tags else []
        ctx.fail(s.clause, f"{entry} d={d}: {desc} -> {s.detail}", "binary + - * / over numerals and fluents", got,
                 base_tags + s.tags + extra)
        return
    in_ops = sorted(c.op for c in inputs)
    if any(o.op not in in_ops for o in outs):
        ctx.fail("operator-changed", f"{entry} d={d}: {desc} -> {got!r}", in_ops, [o.op for o in outs],
                 base_tags + ["operator"])
        return
    has_eq = any(c.op == "=" for c in inputs)
    # exact mode only where no rounding can occur: exact sub-space and every input coefficient has <= d decimals
    exact = exact_space and all(representable(c.nf, d) for c in inputs)
    in_trees = [c.tree for c in inputs]
    hazard = defect_tags(in_trees, d, False)
    clause = "inequivalent-exact" if exact else "inequivalent-rounding"

    # coefficient line: printed equalities against input equalities; everything when nothing is eliminated
    def match(o, c):
        """None / "exact" / "rounded": is o a (rounded) multiple of c?"""
        if o.op != c.op:
            return None
        return Judgement(c, o, d, exact).mode
    for o in outs:
        if o.op != "=" and has_eq:
            continue
        modes = {match(o, c) for c in inputs}
        if "exact" in modes:
            continue
        if "rounded" in modes:
            exact = False          # a rescaled member was rounded (1.5*y = 1 printed as y = 0.6667)
            continue
        r.outcome("set-member-coefficients-differ")
        extra = []
        if o.op == "=" and d != 4 and any(Judgement(c, o, 4, False).coefficient_ok() for c in inputs if c.op == "="):
            extra = ["digits-ignored"]
        if not extra:
            trunc = any(Judgement(c, o, d, exact).explained_by_truncation() for c in inputs if c.op == o.op)
            extra = defect_tags(in_trees, d, trunc)
        ctx.fail(clause, f"{entry} d={d}: {desc} -> {got!r}: printed member {o.text()} is not a "
                 f"{'rounding at ' + str(d) + ' digits of a ' if not exact else ''}multiple of any input member",
                 desc, got, base_tags + ["set", "coefficients"] + extra)
        return
    if not has_eq:
        for c in inputs:
            if c.op == "=" and pa.r_is_zero(c.nf):
                continue
            if not any(match(o, c) for o in outs):
                r.outcome("set-member-missing")
                ctx.fail("condition-dropped", f"{entry} d={d}: {desc} -> {got!r}: no printed member corresponds to "
                         f"{c.text()}", desc, got, base_tags + ["set"] + hazard)
                return
    rad = Fraction(0) if exact else radius(d)

    # truth line on the conjunction
    out_err = []
    in_monos = set()
    for c in inputs:
        in_monos.update(c.nf[0])
    for o in outs:
        n2, d2, en, ed = o.err_nf(rad)
        if rad:
            # a term of an input whose coefficient rounds to 0 may be absent from the printed member
            en = dict(en)
            for m in in_monos:
                if m not in n2:
                    en[m] = en.get(m, 0) + rad
        out_err.append((n2, d2, en, ed))
    judged = skipped = sat = 0
    points = list(grid_points(fluents))
    if has_eq and len(inputs) > 1:
        points.extend(solved_points(inputs, fluents))
    for val in points:
        vin = [c.value(val) for c in inputs]
        if any(v is None for v in vin):
            continue
        t_in = all(holds(c.op, v) for c, v in zip(inputs, vin))
        sat += t_in
        t_out = True          # three-valued: True / False / None (unstable)
        undefined = None
        for o, (n2, d2, en, ed) in zip(outs, out_err):
            v = o.value(val)
            if v is None:
                undefined = o
                break
            t = holds(o.op, v)
            if rad:
                stable = abs(pa.p_eval(n2, val)) > pa.p_abs_eval(en, val) and \
                    abs(pa.p_eval(d2, val)) > pa.p_abs_eval(ed, val)
                if not stable:
                    t = None
            if t is False:
                t_out = False
                break
            if t is None:
                t_out = None
        if undefined is not None:
            r.outcome("set-output-undefined")
            ctx.fail("output-undefined", f"{entry} d={d}: {desc} -> {got!r}: {undefined.text()} divides by zero at "
                     f"{fmt_val(val)} where every input member is defined", desc, got, base_tags + ["set"])
            return
        if t_out is None:
            skipped += 1
            continue
        judged += 1
        if t_in != t_out:
            r.count("grid_points_judged", judged)
            r.outcome("set-truth-differs")
            n_in = len({c.text() for c in inputs})
            if t_out and len(outs) < n_in:
                cl, tg = "condition-dropped", ["set", "weaker"]
            else:
                cl, tg = clause, ["set", "weaker" if t_out else "stronger"]
            if has_eq:
                tg.append("elimination")
            ctx.fail(cl, f"{entry} d={d}: {desc} -> {got!r}: at {fmt_val(val)} the inputs are {t_in}, the printed "
                     f"conjunction is {t_out}", desc, got, base_tags + tg + hazard)
            return
    r.count("grid_points_judged", judged)
    r.count("grid_points_skipped_boundary", skipped)
    if len(inputs) > 1:
        r.count("set_points_satisfying_inputs", sat)
        r.outcome("set-satisfiable-on-points" if sat else "set-unsatisfiable-on-points")
    if len(outs) < len(inputs):
        r.outcome("set-equivalent-with-omission")
    else:
        r.outcome("set-equivalent")


def check_set(case, r):
    ctx = Ctx(r, case)
    inputs = [Cond(op, lhs, rhs) for op, lhs, rhs in case["conds"]]
    r.count("states")
    for d in case["digits"]:
        got = guard(call_print, case["conds"], d)
        r.count("transitions")
        judge_set(ctx, "Precondition.print", inputs, got, d, case["sub"] == "E")
    return r


# ----------------------------------------------------------------------------------- default digits

def _child_main():
    """Runs in a fresh interpreter (NUMERIC_PRECISION is read at import time): every entry point with
    the digits argument left out."""
    conds = json.load(sys.stdin)
    out = []
    for op, lhs, rhs in conds:
        row = {}
        calls = {"tree.simplify_complex_numerical_pddl_expression":
                 lambda: lib_tree(op, lhs, rhs).simplify_complex_numerical_pddl_expression(),
                 "Precondition.print": lambda: call_print([(op, lhs, rhs)], None),
                 "simplify_complex_numeric_expression":
                 lambda: NSO.simplify_complex_numeric_expression(G.to_math(lhs))}
        if op == "=":
            calls["simplify_equality"] = lambda: NSO.simplify_equality(f"{G.to_math(lhs)} = {G.to_math(rhs)}")
        else:
            calls["simplify_inequality"] = lambda: NSO.simplify_inequality(
                f"({G.to_math(lhs)} {op} {G.to_math(rhs)})", op)
        for name, fn in calls.items():
            got = guard(fn)
            row[name] = {"raised": got.to_json()} if isinstance(got, Raised) else {"value": got}
        out.append(row)
    json.dump(out, sys.stdout)


def check_env(case, r):
    ctx = Ctx(r, case)
    env = dict(os.environ)
    env.pop("NUMERIC_PRECISION", None)
    if case["env"] is not None:
        env["NUMERIC_PRECISION"] = case["env"]
    env["PV_REPO"] = REPO
    env["PYTHONPATH"] = os.pathsep.join([os.path.dirname(os.path.dirname(os.path.dirname(os.path.abspath(__file__))))]
                                        + ([env["PYTHONPATH"]] if env.get("PYTHONPATH") else []))
    p = subprocess.run([sys.executable, "-m", "pv.checks.c13", "--child"], input=json.dumps(case["conds"]),
                       capture_output=True, text=True, env=env, timeout=100)
    if p.returncode != 0:
        r.count("transitions")
        ctx.fail("raised", f"NUMERIC_PRECISION={case['env']}: importing / driving the library failed: "
                 f"{p.stderr[-300:]}", "results", p.returncode, ["configuration", "import"])
        return r
    rows = json.loads(p.stdout)
    want = int(case["env"]) if case["env"] is not None else 4
    for (op, lhs, rhs), row in zip(case["conds"], rows):
        r.count("states")
        for name, res in row.items():
            r.count("transitions")
            d = 2 if name == "Precondition.print" else want   # print has its own default, 2
            entry = name + "[default-digits]"
            got = res["value"] if "value" in res else None
            if "raised" in res:
                got = Raised(Exception())
                got.type, got.msg = res["raised"]["raised"], res["raised"]["msg"]
            if name == "simplify_complex_numeric_expression":
                judge_single(ctx, entry, Cond(None, lhs, None), got, d, repr(G.to_math(lhs)), False)
            elif name == "Precondition.print":
                judge_set(ctx, entry, [Cond(op, lhs, rhs)], got, d, False)
            else:
                judge_single(ctx, entry, Cond(op, lhs, rhs), got, d, f"({op} {G.to_pddl(lhs)} {G.to_pddl(rhs)})",
                             False)
    return r


def check_seq(case, r):
    ctx = Ctx(r, case)
    d = case["digits"][0]
    entries = {
        "string": lambda op, lhs, rhs: call_eq(lhs, rhs, d) if op == "=" else call_ineq(op, lhs, rhs, d),
        "tree": lambda op, lhs, rhs: call_tree(op, lhs, rhs, d),
        "print": lambda op, lhs, rhs: call_print([(op, lhs, rhs)], d),
    }
    for name, fn in entries.items():
        r.count("states")
        for i, (op, lhs, rhs) in enumerate(case["seq"]):
            c = Cond(op, lhs, rhs)
            got = guard(fn, op, lhs, rhs)
            r.count("transitions")
            before = len(r.fails)
            entry = f"call {i + 1} of {case['order']} [{name}]"
            if name == "print":
                judge_set(ctx, entry, [c], got, d, True)
            else:
                judge_single(ctx, entry, c, got, d, c.text(), True)
            if len(r.fails) > before:
                return r
    return r


def _canon_text(text):
    """printed precondition as a canonical string: operands of and / or sorted"""
    def go(t):
        if isinstance(t, str):
            return t
        if t and t[0] in ("and", "or"):
            return "(" + t[0] + " " + " ".join(sorted(go(x) for x in t[1:])) + ")"
        return "(" + " ".join(go(x) for x in t) + ")"
    return go(sexp.read(text))


def check_edit(case, r):
    """differential oracle: after every edit the simplified print of the edited object equals the simplified print of
    a precondition built from scratch with the conditions it now holds (that print is judged by the other cases)"""
    ctx = Ctx(r, case)

    def build(outer, inner, keep=None):
        root = Precondition("and")
        for op, lhs, rhs in outer:
            t = lib_tree(op, lhs, rhs)
            root.add_condition(t)
            if keep is not None:
                keep.setdefault("outer", []).append(t)
        if inner:
            sub = Precondition("or")
            for op, lhs, rhs in inner:
                t = lib_tree(op, lhs, rhs)
                sub.add_condition(t)
                if keep is not None:
                    keep.setdefault("inner", []).append(t)
            root.add_condition(sub)
        return root
    outer, inner = list(case["outer"]), list(case["inner"])
    for d in case["digits"]:
        r.count("states")

        def history():
            keep = {}
            root = build(outer, inner, keep)
            texts = [root.print(should_simplify=True, decimal_digits=d)]
            victim = (inner if case["victim_in_inner"] else outer)[0]
            removed = root.remove_condition(keep["inner" if case["victim_in_inner"] else "outer"][0])
            texts.append(root.print(should_simplify=True, decimal_digits=d))
            root.add_condition(lib_tree(*victim))   # back in, at the top level
            texts.append(root.print(should_simplify=True, decimal_digits=d))
            return removed, texts

        def scratch():
            v_in = case["victim_in_inner"]
            o2, i2 = (outer, inner[1:]) if v_in else (outer[1:], inner)
            victim = (inner if v_in else outer)[0]
            return [build(outer, inner).print(should_simplify=True, decimal_digits=d),
                    build(o2, i2).print(should_simplify=True, decimal_digits=d),
                    build(o2 + [victim], i2).print(should_simplify=True, decimal_digits=d)]
        got, want = guard(history), guard(scratch)
        r.count("transitions", 6)
        if isinstance(got, Raised) or isinstance(want, Raised):
            if isinstance(got, Raised) != isinstance(want, Raised):
                ctx.fail("edit-history", f"d={d}: {case['pre']}: edited object {got if isinstance(got, Raised) else 'printed'}, "
                         f"built from scratch {want if isinstance(want, Raised) else 'printed'}", "same", str(got)[:200], ["edit"])
            continue
        removed, texts = got
        steps = ["as built", "after remove_condition", "after add_condition"]
        for step, t1, t2 in zip(steps, texts, want):
            if guard(_canon_text, t1) != guard(_canon_text, t2):
                ctx.fail("edit-history", f"d={d}: {case['pre']} {step} (removed={removed}): the edited object prints\n{t1}\n"
                         f"a precondition built from scratch with the same conditions prints\n{t2}", t2, t1, ["edit", step])
                break
        else:
            r.outcome("edit-history-ok")
    r.nontrivial = True
    return r


def check_case(case):
    r = CaseResult()
    if case["kind"] == "edit":
        return check_edit(case, r)
    if case["kind"] == "seq":
        return check_seq(case, r)
    if case["kind"] == "expr":
        return check_expr(case, r)
    if case["kind"] == "set":
        return check_set(case, r)
    if case["kind"] == "env":
        return check_env(case, r)
    raise AssertionError(case["kind"])


def _has(tag):
    return lambda case, fail: tag in fail.get("tags", [])


# predicates for known_findings.jsonl matchers ({"kind": "predicate", "name": ..., "clause": ...})
def _substituted_denominator(case, fail):
    """KF-C13-13: an equality whose right-hand side is a fluent is substituted into the denominator of a sibling inequality"""
    return fail["clause"] == "output-undefined" and "eq-fluent-rhs-with-division" in case.get("tags", []) \
        and "set" in fail.get("tags", [])


MATCHERS = {"substituted_denominator": _substituted_denominator, **{name: _has(name) for name in (
    "rational-coefficient", "power-operator", "int-truncation", "zero-coefficient", "digits-ignored",
    "digits-type", "numeral-vs-numeral", "constant-truth-value", "no-fluent", "numeral-lhs", "none-operand",
    "integer-subtraction-read-as-fluent", "compound-power-base")}}


if __name__ == "__main__":
    if "--child" in sys.argv:
        _child_main()
