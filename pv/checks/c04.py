"""C04 — a plan is turned into the trajectory that the transition function dictates.

Space: three mini-domains (STRIPS with zero-arity atoms/actions; numeric with a repeated-argument fluent;
conditional + universal + constants) x ALL plans = sequences of type-correct calls (applicable and
inapplicable) up to length L, each run (a) through TrajectoryExporter.parse_plan(action_sequence=...),
(b) from a plan file in 3 line layouts, (c) with allow_invalid_actions=True, (d) by chaining
Operator.apply directly.
Oracle: one triplet per plan line in order; first pre-state = initial state; every pre-state equals the
preceding post-state (as RefStates and with the library's ==); every post-state is the reference
successor of its pre-state if the step is applicable there, the unchanged pre-state if not (error for a
direct apply); operator text = the plan line lower-cased; the exported trajectory text, read
independently, is the same sequence.
"""
from ..bridge import guard, Raised, parse_domain, parse_problem, observe_state, operator, write_tmp
from ..core import same_state as _same_state, show


def same_state(a, b):
    """fluent values at 1e-9 relative tolerance: the mini-domains contain non-dyadic increments (0.00001)"""
    return _same_state(a, b, exact=False)

from ..gens import minidoms as md
from ..refsem import RefState, applicable, successor, Inconsistent, RefUndefined
from ..runner import CaseResult, digest
from .. import sexp

ID = "C04"
RULE = ("domains: strips (10 calls), numeric (12 calls), cond (26 calls); all plans over the calls of a domain up to length "
        "L (quick: 4,3,2; thorough: 5,4,3), executed in 4 modes + 3 plan-file layouts (as is, UPPER CASE with extra blanks, "
        "no final newline); one case = one (domain, first two steps) prefix family. states = distinct reference states "
        "reached; transitions = steps compared. non-trivial = a plan that mixes applicable and inapplicable steps")
ASSUMPTIONS = ["with allow_invalid_actions only count, chaining and the steps applicable in their actual pre-state are judged",
               "steps whose simultaneous effects are inconsistent are outside the quantifier (not judged)"]
CASE_TIMEOUT = 300
LEN = {"quick": {"strips": 4, "numeric": 3, "cond": 2}, "thorough": {"strips": 5, "numeric": 4, "cond": 3}}


def cases(tier):
    for name in md.ALL:
        d, p = md.ref(name)
        calls = md.all_calls(d, d.all_objects(p.objects))
        L = LEN[tier][name]
        yield {"domain": name, "prefix": [], "length": 0}
        for c in calls:
            yield {"domain": name, "prefix": [list(map(list, [(c[0],) + tuple(c[1])]))[0]], "length": 1}
        if L >= 2:
            for c1 in calls:
                for c2 in calls:
                    yield {"domain": name, "prefix": [[c1[0], *c1[1]], [c2[0], *c2[1]]], "length": L}


def line(step):
    return "(" + " ".join(step) + ")"


class World:
    def __init__(self, name):
        dt, pt = md.ALL[name]
        self.S, self.RP = md.ref(name)
        self.objs = self.S.all_objects(self.RP.objects)
        self.D = parse_domain(dt)
        self.P = parse_problem(pt, self.D)
        self.init = self.RP.state()
        self.calls = md.all_calls(self.S, self.objs)


def expected_next(w, step, pre: RefState, allow):
    """(applicable?, expected post-state or None when not judged)"""
    act = w.S.actions[step[0]]
    try:
        ok = applicable(w.S, act, tuple(step[1:]), pre, w.objs)
        if ok:
            return True, successor(w.S, act, tuple(step[1:]), pre, w.objs)
    except (Inconsistent, RefUndefined):
        return None, None
    if allow:
        return False, None
    return False, pre


def check_triplets(r, w, plan, triplets, mode, allow, tags):
    """True if ok"""
    if isinstance(triplets, Raised):
        r.fail("plan-raised", f"[{mode}] plan {plan} raised {triplets}", "triplets", triplets.to_json(), tags=tags)
        return False
    if len(triplets) != len(plan):
        r.fail("step-count", f"[{mode}] plan {plan}: {len(triplets)} triplets for {len(plan)} lines", len(plan),
               len(triplets), tags=tags)
        return False
    prev_post = None
    for i, (step, t) in enumerate(zip(plan, triplets)):
        pre = guard(observe_state, t.previous_state)
        post = guard(observe_state, t.next_state)
        r.count("transitions")
        if isinstance(pre, Raised) or isinstance(post, Raised):
            r.fail("unreadable-state", f"[{mode}] plan {plan} step {i}: {pre} / {post}", "", "", tags=tags)
            return False
        r.seen("states", digest(post.key()))
        if i == 0 and not same_state(pre, w.init):
            r.fail("initial-state", f"[{mode}] plan {plan}: first pre-state {pre.to_json()} != initial "
                   f"{w.init.to_json()}", w.init.to_json(), pre.to_json(), tags=tags)
            return False
        if i > 0:
            if not same_state(pre, prev_post):
                r.fail("chain", f"[{mode}] plan {plan} step {i}: pre-state {pre.to_json()} != previous post-state "
                       f"{prev_post.to_json()}", prev_post.to_json(), pre.to_json(), tags=tags)
                return False
            eq = guard(lambda: triplets[i].previous_state == triplets[i - 1].next_state)
            if eq is not True:
                r.fail("chain-eq", f"[{mode}] plan {plan} step {i}: library == between pre-state and previous "
                       f"post-state gives {eq}", True, str(eq), tags=tags)
                return False
        op_text = guard(lambda: sexp.read(str(t.operator)))
        if op_text != [x.lower() for x in step]:
            r.fail("operator-text", f"[{mode}] plan {plan} step {i}: operator text {op_text}", step, str(op_text),
                   tags=tags)
            return False
        ok, want = expected_next(w, step, pre, allow)
        if want is not None and not same_state(post, want):
            r.fail("successor" if ok else "refusal", f"[{mode}] plan {plan} step {i} {line(step)} "
                   f"({'applicable' if ok else 'inapplicable'}) from {pre.to_json()}: post-state {post.to_json()}, "
                   f"expected {want.to_json()}", want.to_json(), post.to_json(), tags=tags)
            return False
        prev_post = post
    return True


def run_plan(r, w, plan, tags):
    from pddl_plus_parser.exporters import TrajectoryExporter
    lines = [line(s) for s in plan]
    mixed = set()
    st = w.init
    for s in plan:
        ok, nxt = expected_next(w, s, st, False)
        mixed.add(ok)
        if nxt is None:
            break
        st = nxt
    if True in mixed and False in mixed:
        r.nontrivial = True
    # (a) action_sequence
    tr = guard(lambda: TrajectoryExporter(w.D).parse_plan(w.P, action_sequence=list(lines)))
    r.count("histories")
    if not check_triplets(r, w, plan, tr, "sequence", False, tags):
        return False
    # exported text, read independently
    if plan:
        text = guard(lambda: "".join(TrajectoryExporter.export(tr)))
        tree = guard(sexp.read, text) if not isinstance(text, Raised) else text
        good = not isinstance(tree, Raised) and len(tree) == 2 * len(plan) + 1
        if good:
            for i, s in enumerate(plan):
                good &= tree[2 * i + 1] == ["operator:", [x.lower() for x in s]]
                good &= tree[2 * i + 2][:1] == [":state"]  # only the first state is the initial state
                try:
                    good &= same_state(RefState.from_state_tree(tree[2 * i + 2]), observe_state(tr[i].next_state))
                except Exception:
                    good = False
            good &= tree[0][0] == ":init"
        if not good:
            r.fail("exported-text", f"plan {plan}: exported trajectory text does not read as the triplet sequence: "
                   f"{str(text)[:600]}", "same sequence", str(tree)[:300], tags=tags)
            return False
    # (b) plan file layouts
    for layout, text in (("file", "\n".join(lines) + "\n"),
                         ("file-upper", "\n".join("  " + l.upper().replace(" ", "  ") + "  " for l in lines) + "\n"),
                         ("file-no-final-newline", "\n".join(lines))):
        if not plan:
            continue
        path = write_tmp(text, ".plan")
        tr2 = guard(lambda: TrajectoryExporter(w.D).parse_plan(w.P, plan_path=path))
        r.count("histories")
        if not check_triplets(r, w, plan, tr2, layout, False, tags):
            return False
    # (b2) the same long-lived exporter, first on a second problem with other objects, then on this one: an exporter
    # must not remember anything between plans
    if plan:
        exp = w.__dict__.setdefault("_shared_exporter", TrajectoryExporter(w.D))
        if name_has_other(w):
            other = guard(lambda: exp.parse_plan(w.P_other, action_sequence=list(lines)))
            r.count("histories")
            w_other = w.other
            if not isinstance(other, Raised) and not check_triplets(r, w_other, plan, other, "shared-exporter-other-problem",
                                                                    False, tags):
                return False
        tr_s = guard(lambda: exp.parse_plan(w.P, action_sequence=list(lines)))
        r.count("histories")
        if not check_triplets(r, w, plan, tr_s, "shared-exporter", False, tags):
            return False
        if name_has_other(w):
            # and a second long-lived exporter that sees the problems in the opposite order
            exp2 = w.__dict__.setdefault("_shared_exporter2", TrajectoryExporter(w.D))
            for ww, pp, label in ((w, w.P, "shared-exporter2"), (w.other, w.P_other, "shared-exporter2-other-problem")):
                tr2_ = guard(lambda: exp2.parse_plan(pp, action_sequence=list(lines)))
                r.count("histories")
                if not check_triplets(r, ww, plan, tr2_, label, False, tags):
                    return False
    # (c) allow_invalid_actions
    tr3 = guard(lambda: TrajectoryExporter(w.D, allow_invalid_actions=True).parse_plan(w.P, action_sequence=list(lines)))
    r.count("histories")
    if not check_triplets(r, w, plan, tr3, "allow", True, tags):
        return False
    # (d) direct chaining
    from pddl_plus_parser.multi_agent.common import create_initial_state
    cur = create_initial_state(parse_problem(md.ALL[w.name][1], w.D))
    ref_cur = w.init
    for i, s in enumerate(plan):
        ok, want = expected_next(w, s, ref_cur, False)
        if ok is None:
            break
        got = guard(lambda: operator(w.D, s[0], s[1:], w.P.objects).apply(cur))
        r.count("transitions")
        if ok:
            obs = guard(observe_state, got) if not isinstance(got, Raised) else got
            if isinstance(obs, Raised) or not same_state(obs, want):
                r.fail("direct-successor", f"plan {plan} step {i}: direct apply from {ref_cur.to_json()} gave {show(obs)}, "
                       f"expected {want.to_json()}", want.to_json(), show(obs), tags=tags)
                return False
            cur, ref_cur = got, want
        else:
            if not (isinstance(got, Raised) and got.type == "ValueError"):
                r.fail("direct-refusal", f"plan {plan} step {i} {line(s)} is inapplicable in {ref_cur.to_json()} but direct "
                       f"apply returned {show(got) if isinstance(got, Raised) else show(guard(observe_state, got))}",
                       "ValueError", str(got)[:200], tags=tags)
                return False
    # (e) the same plan on ONE State object that is changed in place after every step (a simulator's loop): the state
    # is asked before each step, the step's successor is computed by a fresh operator with skip_validation, and the
    # object's tables are then overwritten with that successor's
    from ..bridge import make_state
    cur = create_initial_state(parse_problem(md.ALL[w.name][1], w.D))
    ref_cur = w.init
    for i, s in enumerate(plan):
        ok, want = expected_next(w, s, ref_cur, False)
        if ok is None:
            break
        asked = guard(lambda: operator(w.D, s[0], s[1:], w.P.objects).is_applicable(cur))
        r.count("transitions")
        if asked is not ok:
            r.fail("in-place-applicability", f"plan {plan} step {i} {line(s)}: one State object changed in place after every "
                   f"step now holds {ref_cur.to_json()} (reads {show(guard(observe_state, cur))}); is_applicable = "
                   f"{asked}, expected {ok}", ok, str(asked), tags=tags + ["in-place"])
            return False
        if not ok:
            continue
        nxt = guard(lambda: operator(w.D, s[0], s[1:], w.P.objects).apply(cur, skip_validation=True))
        obs = guard(observe_state, nxt) if not isinstance(nxt, Raised) else nxt
        if isinstance(obs, Raised) or not same_state(obs, want):
            r.fail("direct-successor", f"plan {plan} step {i}: apply(..., skip_validation=True) on a fresh operator from "
                   f"{ref_cur.to_json()} gave {show(obs)}, expected {want.to_json()}", want.to_json(), show(obs),
                   tags=tags + ["skip-validation"])
            return False
        cur.state_predicates.clear()
        cur.state_predicates.update(nxt.state_predicates)
        cur.state_fluents.clear()
        cur.state_fluents.update(nxt.state_fluents)
        cur.is_init = False
        ref_cur = want
    # (f) the plan chained with ONE Operator object per distinct call (an executor that grounds every call once): every
    # step's successor is right, and every earlier state of the trajectory still reads as it did when it was returned
    if len(plan) >= 2 and len({tuple(s) for s in plan}) < len(plan):
        ops = {}
        cur = create_initial_state(parse_problem(md.ALL[w.name][1], w.D))
        ref_cur = w.init
        held = [(cur, ref_cur)]
        for i, s in enumerate(plan):
            ok, want = expected_next(w, s, ref_cur, False)
            if ok is None:
                break
            op = ops.setdefault(tuple(s), operator(w.D, s[0], s[1:], w.P.objects))
            got = guard(lambda: op.apply(cur))
            r.count("transitions")
            if not ok:
                continue
            obs = guard(observe_state, got) if not isinstance(got, Raised) else got
            if isinstance(obs, Raised) or not same_state(obs, want):
                r.fail("direct-successor", f"plan {plan} step {i}: apply of the operator object kept for {line(s)} from "
                       f"{ref_cur.to_json()} gave {show(obs)}, expected {want.to_json()}", want.to_json(), show(obs),
                       tags=tags + ["kept-operators"])
                return False
            cur, ref_cur = got, want
            held.append((cur, ref_cur))
            for j, (st, ref) in enumerate(held):
                now = guard(observe_state, st)
                if isinstance(now, Raised) or not same_state(now, ref):
                    r.fail("chaining", f"plan {plan} chained with one operator object per distinct call: after step {i} the state "
                           f"#{j} of the trajectory reads {show(now)}, it was {ref.to_json()} when it was returned", ref.to_json(),
                           show(now), tags=tags + ["kept-operators"])
                    return False
    return True


_W = {}


def name_has_other(w):
    """a second problem of the same domain with one more object of every quantified type (cond domain only)"""
    if w.name != "cond":
        return False
    if "other" not in w.__dict__:
        import copy
        from ..refsem import RefProblem
        pt = md.ALL["cond"][1].replace("b b2 - t2", "b b2 b3 - t2").replace("(q a b2)", "(q a b2) (q a b3) (p b3)")
        o = copy.copy(w)
        o.RP = RefProblem.from_tree(sexp.read(pt))
        o.objs = o.S.all_objects(o.RP.objects)
        o.init = o.RP.state()
        w.other = o
        w.P_other = parse_problem(pt, w.D)
    return True


def check_case(case):
    r = CaseResult()
    name = case["domain"]
    if name not in _W:
        _W[name] = World(name)
        _W[name].name = name
    w = _W[name]
    prefix = [list(s) for s in case["prefix"]]
    rest = max(0, case["length"] - len(prefix)) if len(prefix) >= 2 else 0
    tags = [name]
    for tail in md.plans([[c[0], *c[1]] for c in w.calls], rest):
        plan = prefix + [list(s) for s in tail]
        if not run_plan(r, w, plan, tags):
            break
    return r
