"""C12 — numeric expressions evaluate as arithmetic; comparisons use the stated tolerance.

(a) every expression tree up to a node bound over + - * / with constant and fluent leaves x every
valuation of its fluents on a rational grid: evaluated directly (construct_expression_tree +
set_expression_value + calculate) and through one-condition / one-effect actions (is_applicable, apply);
(b) comparison boundary: value pairs 0, 1/2, ~1 and 2 tolerances apart at several magnitudes under the
configurations EPSILON in {default, 2^-3, 2^-10}; (c) printing: to_pddl(d) for d in {0,2,4,6} and
NUMERIC_PRECISION in {unset, 2, 6}, re-read by the library.  Each configuration runs in its own interpreter.
Oracle: exact Fraction arithmetic with prefix operand order (pv.refsem.value / compare).
"""
import json
import os
import subprocess
import sys
from fractions import Fraction
from itertools import product

from .. import sexp
from ..bridge import guard, Raised, parse_domain, parse_problem, operator, observe_state, fmt_num, REPO
from ..core import close
from ..refsem import RefDomain, RefState, value, compare, RefUndefined, is_number
from ..runner import CaseResult, digest, VERIF

ID = "C12"
OPS = ["+", "-", "*", "/"]
LEAVES = ["(f)", "(g ?x)", "(g ?y)", "2", "0.5", "-1"]
GRID = [Fraction(-2), Fraction(-1, 2), Fraction(0), Fraction(1, 2), Fraction(1), Fraction(3)]
SUBGRID = [Fraction(-2), Fraction(1, 2), Fraction(3)]
CMPS = ["=", "<=", ">=", "<", ">"]
RULE = ("(a) all binary expression trees with <= 5 nodes (quick) / <= 7 nodes, depth <= 4 (thorough: 7-node trees on a 4-leaf "
        "alphabet) over + - * / and leaves {(f),(g ?x),(g ?y),2,0.5,-1}; direct evaluation on every valuation of the 6-point "
        "grid; through actions (5 comparison operators against 2 constants; assign/increase/decrease; 4 actions with several mutually "
        "dependent updates) on a 3-point sub-grid; a two-place fluent under 6 parameter namings (the declaration's names in the same / the other order, unrelated names) x 5 expressions x 3 targets x both calls x 9 valuations; "
        "(b) 5 operators x deltas {0, eps/2, ~eps (0.999/1.001 for the non-dyadic default), eps(1+2^-20), 2 eps} both signs x "
        "magnitudes {0,1,-1,1000} x EPSILON in {default 1e-4, 2^-3, 2^-10}; (c) 12 expressions x digits {default,0,2,4,6} x "
        "NUMERIC_PRECISION in {unset,2,6}. non-trivial = a tree with >= 1 operator and >= 1 fluent")
ASSUMPTIONS = ["valuations where the reference divides by zero are skipped (the library raising there is fine)",
               "magnitudes stop at 10^3: beyond ~10^5 math.isclose's relative tolerance exceeds EPSILON",
               "results involving '/' are compared at 1e-9 relative tolerance, '+ - *' on the dyadic grid exactly"]
CASE_TIMEOUT = 600

HDR = ("(define (domain c12) (:requirements :typing :numeric-fluents) (:types t1 - object) (:predicates (r)) "
       "(:functions (f) (g ?a - t1) (out))\n")
_S = RefDomain.from_tree(sexp.read(HDR + ")"))


def trees(nodes, leaves):
    if nodes == 1:
        for l in leaves:
            yield l
        return
    for left in range(1, nodes - 1, 2):
        right = nodes - 1 - left
        for op in OPS:
            for a in trees(left, leaves):
                for b in trees(right, leaves):
                    yield f"({op} {a} {b})"


def cases(tier):
    batch = []
    for n in (1, 3, 5):
        for t in trees(n, LEAVES):
            batch.append(t)
            if len(batch) == 40:
                yield {"kind": "eval", "trees": batch}
                batch = []
    if tier != "quick":
        for t in trees(7, ["(f)", "(g ?x)", "2", "0.5"]):
            batch.append(t)
            if len(batch) == 40:
                yield {"kind": "eval", "trees": batch, "direct_only": True}
                batch = []
    if batch:
        yield {"kind": "eval", "trees": batch}
    yield {"kind": "mutual"}
    yield {"kind": "argorder"}
    yield {"kind": "near"}
    yield {"kind": "chain"}
    yield {"kind": "undefined"}
    for eps in (None, "0.125", "0.0009765625"):
        yield {"kind": "boundary", "eps": eps}
    # the tolerance is EPSILON's business alone: the print precision must not move it
    for eps, prec in ((None, "2"), (None, "6"), ("0.125", "2"), ("0.0009765625", "6")):
        yield {"kind": "boundary", "eps": eps, "precision": prec}
    for prec in (None, "2", "6"):
        yield {"kind": "print", "precision": prec}


def fluents_of(text):
    return [f for f in ("(f)", "(g ?x)", "(g ?y)") if f in text]


KEY = {"(f)": ("f",), "(g ?x)": ("g", "o1"), "(g ?y)": ("g", "o2")}
BETA = {"?x": "o1", "?y": "o2"}


def ref_value(tree, vals):
    st = RefState([], {KEY[f]: v for f, v in vals.items()})
    return value(_S, tree, BETA, st)


def check_eval(r, case):
    from pddl_plus_parser.lisp_parsers import PDDLTokenizer
    from pddl_plus_parser.models import construct_expression_tree, PDDLFunction
    from pddl_plus_parser.models.numerical_expression import set_expression_value, calculate
    funcs = parse_domain(HDR + ")").functions
    for text in case["trees"]:
        tree = sexp.read(text) if text.startswith("(") else text
        fl = fluents_of(text)
        has_div = "/" in text
        r.seen("states", digest(text))
        if fl and text.startswith("(") and not is_number(text):
            r.nontrivial = True
        # -- direct
        def build():
            return construct_expression_tree(PDDLTokenizer(pddl_str=f"(+ 0 {text})").parse(), funcs)
        for vals in product(GRID, repeat=len(fl)):
            v = dict(zip(fl, vals))
            try:
                want = ref_value(tree, v)
            except RefUndefined:
                r.outcome("skip-division-by-zero")
                continue

            def direct():
                root = build()
                state = {}
                for f in fl:
                    name = sexp.read(f)
                    pf = PDDLFunction(name=name[0], signature={a: None for a in name[1:]})
                    pf.set_value(float(v[f]))
                    state[pf.untyped_representation] = pf
                set_expression_value(root, state)
                return calculate(root)
            got = guard(direct)
            r.count("transitions")
            ok = not isinstance(got, Raised) and (
                close(Fraction(got), want) if has_div else Fraction(got) == want)
            if not ok:
                r.fail("evaluate", f"direct: {text} at { {k: str(x) for k, x in v.items()} } = {got}, expected {want}",
                       str(want), str(got), tags=["direct"])
                return
        if case.get("direct_only"):
            continue
        # -- through actions
        for vals in product(SUBGRID, repeat=len(fl)):
            v = dict(zip(fl, vals))
            try:
                want = ref_value(tree, v)
            except RefUndefined:
                continue
            st = RefState([], {KEY[f]: x for f, x in v.items()})
            st.fluents[("out",)] = Fraction(5)
            init = " ".join(f"(= ({' '.join(k)}) {fmt_num(x)})" for k, x in st.fluents.items())
            ptxt = f"(define (problem p) (:domain c12) (:objects o1 o2 - t1) (:init {init}) (:goal (and)))"
            for cmpop in CMPS:
                for K in ("0.5", "-2"):
                    if is_number(text):
                        continue  # a comparison of two numerals: outside the alphabet (the parser rejects it)
                    if has_div and abs(want - Fraction(K)) < Fraction(1, 1000) and want != Fraction(K):
                        continue
                    w = compare(cmpop, want, Fraction(K), Fraction(1, 10000))
                    if has_div and abs(abs(want - Fraction(K)) - Fraction(1, 10000)) < Fraction(1, 10 ** 6):
                        continue
                    D = _dom(f":precondition (and ({cmpop} {text} {K})) :effect (and (r))")
                    if isinstance(D, Raised):
                        r.fail("parse-raised", f"condition ({cmpop} {text} {K}) does not parse: {D}", "parsed", D.to_json(),
                               tags=["action"])
                        return

                    def q():
                        from pddl_plus_parser.multi_agent.common import create_initial_state
                        P = parse_problem(ptxt, D)
                        return operator(D, "a", ["o1", "o2"], P.objects).is_applicable(create_initial_state(P))
                    got = guard(q)
                    r.count("transitions")
                    if got is not w:
                        r.fail("compare", f"({cmpop} {text} {K}) at { {k: str(x) for k, x in v.items()} }: applicable={got}, "
                               f"expected {w} (value {want})", w, str(got), tags=["action", cmpop])
                        return
            for eff, fn in (("assign", lambda old, x: x), ("increase", lambda old, x: old + x),
                            ("decrease", lambda old, x: old - x)):
                D = _dom(f":precondition (and) :effect (and ({eff} (out) {text}))")
                if isinstance(D, Raised):
                    r.fail("parse-raised", f"effect ({eff} (out) {text}) does not parse: {D}", "parsed", D.to_json(),
                           tags=["action"])
                    return

                def q():
                    from pddl_plus_parser.multi_agent.common import create_initial_state
                    P = parse_problem(ptxt, D)
                    return observe_state(operator(D, "a", ["o1", "o2"], P.objects).apply(create_initial_state(P)))
                got = guard(q)
                r.count("transitions")
                w = fn(Fraction(5), want)
                ok = not isinstance(got, Raised) and ("out",) in got.fluents and (
                    close(got.fluents[("out",)], w) if has_div else got.fluents[("out",)] == w)
                if ok:
                    frame = {k: x for k, x in got.fluents.items() if k != ("out",)}
                    ok = frame == {k: x for k, x in st.fluents.items() if k != ("out",)}
                if not ok:
                    r.fail("assignment", f"({eff} (out) {text}) from out=5 at { {k: str(x) for k, x in v.items()} }: "
                           f"{got if isinstance(got, Raised) else got.to_json()}, expected out={w}", str(w), str(got),
                           tags=["action", eff])
                    return


_DOMS = {}


def _dom(body):
    if body not in _DOMS:
        if len(_DOMS) > 5000:
            _DOMS.clear()
        _DOMS[body] = guard(parse_domain, HDR + f"(:action a :parameters (?x - t1 ?y - t1) {body}))")
    return _DOMS[body]


def sub_run(env_extra, queries):
    env = dict(os.environ)
    env.pop("EPSILON", None)
    env.pop("NUMERIC_PRECISION", None)
    env.update({k: v for k, v in env_extra.items() if v is not None})
    env["PYTHONPATH"] = f"{REPO}:{VERIF}"
    p = subprocess.run([sys.executable, "-m", "pv.c12_worker"], input=json.dumps(queries), capture_output=True,
                       text=True, env=env, cwd=VERIF, timeout=500)
    if p.returncode != 0:
        raise RuntimeError(f"c12 worker failed: {p.stderr[-800:]}")
    return json.loads(p.stdout)


def check_boundary(r, case):
    r.nontrivial = True
    eps = Fraction(case["eps"]) if case["eps"] else Fraction(1, 10000)
    dyadic = case["eps"] is not None
    ratios = [Fraction(0), Fraction(1, 2), Fraction(1, 1) if dyadic else Fraction(999, 1000),
              (1 + Fraction(1, 2 ** 20)) if dyadic else Fraction(1001, 1000), Fraction(2)]
    queries, wants = [], []
    for op in CMPS:
        for a in (Fraction(0), Fraction(1), Fraction(-1), Fraction(1000)):
            for ratio in ratios:
                for sign in (1, -1):
                    b = a + sign * ratio * eps
                    fa, fb = float(a), float(b)
                    # the reference compares the floats the library actually receives
                    want = compare(op, Fraction(fa), Fraction(fb), eps if dyadic else Fraction(float(eps)))
                    queries.append({"kind": "cmp", "op": op, "a": repr(fa), "b": repr(fb)})
                    wants.append(want)
    got = sub_run({"EPSILON": case["eps"], "NUMERIC_PRECISION": case.get("precision")}, queries)
    for q, w, g in zip(queries, wants, got):
        r.count("transitions")
        r.count("states")
        if g is not w:
            r.fail("tolerance", f"EPSILON={case['eps'] or 'default'} NUMERIC_PRECISION={case.get('precision') or 'unset'}: "
                   f"({q['op']} {q['a']} {q['b']}) -> {g}, expected {w}", w,
                   str(g), tags=[q["op"], f"eps={case['eps']}", f"precision={case.get('precision')}"])
            if len(r.fails) >= 3:
                return


PRINT_EXPRS = ["(+ (f) 2)", "(* (g ?x) 0.5)", "(- (f) (g ?x))", "(/ (f) 4)", "(>= (g ?x) 0.125)", "(<= (* 2.5 (f)) -3)",
               "(increase (f) 1.75)", "(assign (g ?x) (+ (g ?x) 0.0001))", "(= (f) 12345.678)", "(> (- 0 (f)) 1000000)",
               "(decrease (f) (* (g ?x) (g ?x)))", "(< (+ (f) 0.25) (/ (g ?x) 3))", "(<= (f) 2.99996)",
               "(increase (f) 0.99997)", "(> (g ?x) -1.99998)", "(>= (* (f) 0.99996) 1.00004)"]


def check_print(r, case):
    r.nontrivial = True
    queries = []
    for e in PRINT_EXPRS:
        for d in (None, 0, 2, 4, 6):
            queries.append({"kind": "print", "expr": e, "digits": d})
    got = sub_run({"NUMERIC_PRECISION": case["precision"]}, queries)
    for q, g in zip(queries, got):
        r.count("transitions")
        r.count("states")
        d = q["digits"] if q["digits"] is not None else int(case["precision"] or 4)
        if "raised" in g:
            r.fail("print-raised", f"NUMERIC_PRECISION={case['precision']}: to_pddl({q['digits']}) of {q['expr']} raised {g}",
                   "text", g, tags=["print"])
            return
        src, out = sexp.read(q["expr"]), sexp.read(g["text"])

        def same(a, b):
            if isinstance(a, str) != isinstance(b, str):
                return False
            if isinstance(a, str):
                if is_number(a) and is_number(b):
                    fa, fb = Fraction(a), Fraction(b)
                    if fa.denominator == 1 and "." in b:
                        return False  # integer-valued constants print as integers
                    return abs(fa - fb) <= Fraction(1, 2) / 10 ** d
                return a == b
            return len(a) == len(b) and all(same(x, y) for x, y in zip(a, b))
        if not same(src, out):
            r.fail("print", f"NUMERIC_PRECISION={case['precision']}: to_pddl({q['digits']}) of {q['expr']} = {g['text']}: "
                   f"structure or constants differ beyond 0.5e-{d}", q["expr"], g["text"], tags=["print"])
            return


MUTUAL = [  # (effect text, {target: expression over PRE-state values}) - several updates in one action
    ("(and (increase (out) (f)) (decrease (f) (out)))", {"out": "(+ (out) (f))", "f": "(- (f) (out))"}),
    ("(and (assign (out) (f)) (assign (f) (out)))", {"out": "(f)", "f": "(out)"}),
    ("(and (increase (f) (g ?x)) (assign (g ?x) (* (f) 2)) (decrease (out) (g ?x)))",
     {"f": "(+ (f) (g ?x))", "g ?x": "(* (f) 2)", "out": "(- (out) (g ?x))"}),
    ("(and (assign (g ?x) (g ?y)) (assign (g ?y) (g ?x)))", {"g ?x": "(g ?y)", "g ?y": "(g ?x)"}),
    # the same dependencies across two effect groups (the condition holds on the whole grid)
    ("(and (assign (g ?x) (g ?y)) (when (>= (f) -100) (assign (g ?y) (g ?x))))", {"g ?x": "(g ?y)", "g ?y": "(g ?x)"}),
    ("(and (increase (f) (out)) (when (<= (f) 100) (increase (out) (f))))", {"f": "(+ (f) (out))", "out": "(+ (out) (f))"}),
    ("(and (when (<= (out) 100) (assign (f) (g ?x))) (when (>= (out) -100) (assign (g ?x) (f))))", {"f": "(g ?x)", "g ?x": "(f)"}),
]


def check_mutual(r, case):
    r.nontrivial = True
    S = RefDomain.from_tree(sexp.read(HDR + ")"))
    for eff, want in MUTUAL:
        D = _dom(f":precondition (and) :effect {eff}")
        for vals in product(SUBGRID, repeat=4):
            pre = RefState([], {("f",): vals[0], ("g", "o1"): vals[1], ("g", "o2"): vals[2], ("out",): vals[3]})
            exp = dict(pre.fluents)
            for tgt, expr in want.items():
                key = tuple(BETA.get(t, t) for t in tgt.split(" "))
                exp[key] = value(S, sexp.read(expr), BETA, pre)
            init = " ".join(f"(= ({' '.join(k)}) {fmt_num(x)})" for k, x in pre.fluents.items())
            ptxt = f"(define (problem p) (:domain c12) (:objects o1 o2 - t1) (:init {init}) (:goal (and)))"

            def q():
                from pddl_plus_parser.multi_agent.common import create_initial_state
                P = parse_problem(ptxt, D)
                return observe_state(operator(D, "a", ["o1", "o2"], P.objects).apply(create_initial_state(P)))
            got = guard(q)
            r.count("transitions")
            r.count("states")
            if isinstance(got, Raised) or got.fluents != exp:
                r.fail("simultaneous-assignment", f"{eff} from { {' '.join(k): str(v) for k, v in pre.fluents.items()} }: "
                       f"{got if isinstance(got, Raised) else got.to_json()}, expected "
                       f"{ {' '.join(k): str(v) for k, v in exp.items()} } (all right-hand sides read the state before the "
                       f"action)", str(exp), str(got), tags=["mutual"])
                return


NEAR = ["1.00001", "1.00004", "1.00002", "0.99998", "1", "1.00001"]


def check_near(r, case):
    """conditions / effects whose constants differ only beyond the print precision, evaluated one after the other in ONE
    process (each must be evaluated with its own constant)"""
    r.nontrivial = True
    for op_ in (">", "<"):
        for k in NEAR:
            D = guard(parse_domain, HDR + f"(:action a :parameters (?x - t1 ?y - t1) :precondition (and ({op_} (f) {k})) "
                                          f":effect (and (increase (out) {k}))))")
            for fv in ("1.00003", "1", "0.99999"):
                ptxt = (f"(define (problem p) (:domain c12) (:objects o1 o2 - t1) (:init (= (f) {fv}) (= (out) 0) "
                        f"(= (g o1) 0) (= (g o2) 0)) (:goal (and)))")

                def q():
                    from pddl_plus_parser.multi_agent.common import create_initial_state
                    P = parse_problem(ptxt, D)
                    op = operator(D, "a", ["o1", "o2"], P.objects)
                    s0 = create_initial_state(P)
                    return [op.is_applicable(s0), observe_state(op.apply(s0, skip_validation=True)).fluents[("out",)]]
                got = guard(q)
                r.count("transitions")
                r.count("states")
                want_app = compare(op_, Fraction(fv), Fraction(k), Fraction(1, 10000))
                ok = not isinstance(got, Raised) and got[0] is want_app and close(got[1], Fraction(k))
                if not ok:
                    r.fail("near-constants", f"({op_} (f) {k}) at f={fv} / (increase (out) {k}) from 0: {got}, expected "
                           f"[{want_app}, {k}] (evaluated after conditions whose constants differ in the 5th decimal)",
                           [want_app, k], str(got), tags=["near"])
                    return


CHAIN = [("(and (increase (f) 1.5))", {"f": "(+ (f) 1.5)"}), ("(and (decrease (f) (g ?x)))", {"f": "(- (f) (g ?x))"}),
         ("(and (assign (f) (* (f) (g ?x))))", {"f": "(* (f) (g ?x))"}),
         ("(and (increase (g ?x) (f)) (decrease (out) 1))", {"g ?x": "(+ (g ?x) (f))", "out": "(- (out) 1)"}),
         ("(and (assign (g ?y) (g ?x)) (increase (g ?x) 0.5))", {"g ?y": "(g ?x)", "g ?x": "(+ (g ?x) 0.5)"}),
         # operator nodes whose direct operands are numerals / operator nodes only, with a fluent further down
         ("(and (increase (f) 1) (increase (out) (* 2 (+ (f) 1))))", {"f": "(+ (f) 1)", "out": "(+ (out) (* 2 (+ (f) 1)))"}),
         ("(and (decrease (g ?x) 0.5) (assign (out) (/ (- (g ?x) 1) (+ (f) (/ 1 2)))))",
          {"g ?x": "(- (g ?x) 0.5)", "out": "(/ (- (g ?x) 1) (+ (f) (/ 1 2)))"}),
         ("(and (assign (f) (- 0 (* 2 (- 1 (f)))))  )", {"f": "(- 0 (* 2 (- 1 (f))))"}),
         # amounts at and below the comparison tolerance are amounts all the same
         ("(and (increase (f) 0.00005) (decrease (out) 0.0001))", {"f": "(+ (f) 0.00005)", "out": "(- (out) 0.0001)"}),
         ("(and (decrease (g ?x) (* (f) 0.00002)))", {"g ?x": "(- (g ?x) (* (f) 0.00002))"})]
UNDEF_PROGRAMS = [  # (precondition, effect): the fluent (out) is read / written but the state does not define it
    ("(and (>= (out) 5))", "(and (increase (f) 1))"), ("(and)", "(and (increase (out) 1))"),
    ("(and (< (+ (out) (f)) 3))", "(and (assign (f) (+ (out) 2)))"), ("(and)", "(and (decrease (out) (f)) (increase (f) 1))"),
]


def check_chain(r, case):
    """one grounded operator applied to its own successors: every successor of the chain, read when it is produced
    and read again after all later applications, holds old+v / old-v / v of its own predecessor"""
    r.nontrivial = True
    S = RefDomain.from_tree(sexp.read(HDR + ")"))
    for eff, want in CHAIN:
        D = _dom(f":precondition (and) :effect {eff}")
        for vals in product([Fraction(1), Fraction(-2), Fraction(1, 2)], repeat=3):
            pre = RefState([], {("f",): vals[0], ("g", "o1"): vals[1], ("g", "o2"): vals[2], ("out",): Fraction(0)})
            exps, cur = [], pre
            for _ in range(3):
                nxt = dict(cur.fluents)
                for tgt, expr in want.items():
                    nxt[tuple(BETA.get(t, t) for t in tgt.split(" "))] = value(S, sexp.read(expr), BETA, cur)
                cur = RefState([], nxt)
                exps.append(cur)
            init = " ".join(f"(= ({' '.join(k)}) {fmt_num(x)})" for k, x in pre.fluents.items())
            ptxt = f"(define (problem p) (:domain c12) (:objects o1 o2 - t1) (:init {init}) (:goal (and)))"
            for fresh in (False, True):
                def q():
                    from pddl_plus_parser.multi_agent.common import create_initial_state
                    P = parse_problem(ptxt, D)
                    op = operator(D, "a", ["o1", "o2"], P.objects)
                    states, seen_then = [create_initial_state(P)], []
                    for _ in range(3):
                        if fresh:
                            op = operator(D, "a", ["o1", "o2"], P.objects)
                        states.append(op.apply(states[-1]))
                        seen_then.append(observe_state(states[-1]))
                    return seen_then, [observe_state(s) for s in states[1:]], observe_state(states[0])
                got = guard(q)
                r.count("transitions", 3)
                r.count("states", 3)
                how = "a fresh operator per step" if fresh else "one operator re-used"
                if isinstance(got, Raised):
                    r.fail("chain", f"{eff} x3 ({how}) raised {got}", "states", got.to_json(), tags=["chain"])
                    return
                then, later, first = got
                for i, e in enumerate(exps):
                    for label, seen in (("when produced", then[i]), ("after the later applications", later[i])):
                        if set(seen.fluents) != set(e.fluents) or not all(close(v, e.fluents[k]) for k, v in seen.fluents.items()):
                            r.fail("chain", f"{eff} applied 3 times ({how}) from "
                                   f"{ {' '.join(k): str(v) for k, v in pre.fluents.items()} }: successor {i + 1} read {label} "
                                   f"= {seen.to_json()['fluents']}, expected { {' '.join(k): str(v) for k, v in e.fluents.items()} }",
                                   str(e.to_json()), str(seen.to_json()), tags=["chain", label])
                            return
                if first.fluents != pre.fluents:
                    r.fail("chain", f"{eff} applied 3 times ({how}): the initial state reads {first.to_json()['fluents']} "
                           f"afterwards", str(pre.to_json()), str(first.to_json()), tags=["chain", "initial"])
                    return


def check_undefined(r, case):
    """a fluent the state does not define: whatever the library makes of it (the reference leaves it undefined), it
    makes the same of it every time - one operator asked again, after other states, answers like a fresh operator"""
    r.nontrivial = True
    from pddl_plus_parser.multi_agent.common import create_initial_state
    for pre, eff in UNDEF_PROGRAMS:
        D = _dom(f":precondition {pre} :effect {eff}")
        texts = []
        for out, f in ((None, "1"), ("10", "1"), (None, "1"), ("-4", "2"), (None, "1"), (None, "2")):
            init = f"(= (f) {f}) (= (g o1) 0) (= (g o2) 0)" + (f" (= (out) {out})" if out is not None else "")
            texts.append(f"(define (problem p) (:domain c12) (:objects o1 o2 - t1) (:init {init}) (:goal (and)))")

        def run(shared):
            outs = []
            P0 = parse_problem(texts[0], D)
            op = operator(D, "a", ["o1", "o2"], P0.objects)
            for t in texts:
                P = parse_problem(t, D)
                if not shared:
                    op = operator(D, "a", ["o1", "o2"], P.objects)
                s0 = create_initial_state(P)
                a = guard(op.is_applicable, s0)
                s1 = guard(lambda: observe_state(op.apply(s0, allow_inapplicable_actions=True)).to_json())
                outs.append([a if not isinstance(a, Raised) else a.type, s1 if not isinstance(s1, Raised) else s1.type])
            return outs
        fresh, reused = guard(run, False), guard(run, True)
        r.count("transitions", 2 * len(texts))
        r.count("states", len(texts))
        if isinstance(fresh, Raised) or isinstance(reused, Raised) or fresh != reused:
            r.fail("undefined-fluent-history", f"{pre} / {eff} over states that define (out) or not, in turn: one operator "
                   f"re-used answers {reused}, a fresh operator per state answers {fresh}", str(fresh), str(reused),
                   tags=["undefined", "chain"])
            return
        # the same state asked twice gives the same answer (states 0, 2 and 4 are the same state)
        if not isinstance(fresh, Raised) and not (fresh[0] == fresh[2] == fresh[4]):
            r.fail("undefined-fluent-history", f"{pre} / {eff}: the same state gives {fresh[0]}, {fresh[2]}, {fresh[4]}",
                   str(fresh[0]), str(fresh[2]), tags=["undefined"])
            return


ARG_HDR = ("(define (domain c12) (:requirements :typing :numeric-fluents) (:types t1 - object) (:predicates (r)) "
           "(:functions (f) (d ?a - t1 ?b - t1) (out))\n")
ARG_PARAMS = [("?a", "?b"), ("?b", "?a"), ("?x", "?y"), ("?a", "?x"), ("?x", "?a"), ("?b", "?x")]


def check_argorder(r, case):
    """a two-place fluent (d ?a ?b) used by actions whose parameters are named like the declaration's, in the same and
    in the other order, and unrelated: the term (d P Q) reads the fluent of (value of P, value of Q) - position by
    position, whatever the names - in conditions, right-hand sides and targets; printing keeps the written order"""
    from pddl_plus_parser.multi_agent.common import create_initial_state
    r.nontrivial = True
    S = RefDomain.from_tree(sexp.read(ARG_HDR + ")"))
    for p1, p2 in ARG_PARAMS:
        t12, t21 = f"(d {p1} {p2})", f"(d {p2} {p1})"
        exprs = [t12, t21, f"(- {t12} {t21})", f"(- {t21} (* 2 {t12}))", f"(+ {t21} (f))"]
        for e in exprs:
            for tgt in ("(out)", t12, t21):
                body = f":precondition (and (>= {e} 1)) :effect (and (assign {tgt} {e}) (increase (f) {t21}))"
                D = guard(parse_domain, ARG_HDR + f"(:action a :parameters ({p1} - t1 {p2} - t1) {body}))")
                if isinstance(D, Raised):
                    r.fail("argorder-rejected", f"parameters ({p1} {p2}): {body} raised {D}", "parsed", str(D), tags=["argorder"])
                    return
                printed = guard(lambda: sexp.read(D.actions["a"].preconditions.print(should_simplify=False)))
                want_pre = sexp.read(f"(and (>= {e} 1))")
                if isinstance(printed, Raised) or _numnorm(printed) != _numnorm(want_pre):
                    r.fail("argorder-print", f"parameters ({p1} {p2}): precondition (and (>= {e} 1)) prints as "
                           f"{printed if isinstance(printed, Raised) else sexp.dumps(printed)}", sexp.dumps(want_pre), str(printed),
                           tags=["argorder", "print"])
                    return
                for args in (("o1", "o2"), ("o2", "o1")):
                    beta = {p1: args[0], p2: args[1]}
                    for vals in product(SUBGRID, repeat=2):
                        pre = RefState([], {("f",): Fraction(1), ("out",): Fraction(0), ("d", "o1", "o2"): vals[0],
                                            ("d", "o2", "o1"): vals[1], ("d", "o1", "o1"): Fraction(5), ("d", "o2", "o2"): Fraction(7)})
                        want_app = compare(">=", value(S, sexp.read(e), beta, pre), Fraction(1), Fraction(1, 10000))
                        exp = dict(pre.fluents)
                        exp[tuple(beta.get(t, t) for t in sexp.read(tgt))] = value(S, sexp.read(e), beta, pre)
                        exp[("f",)] = pre.fluents[("f",)] + value(S, sexp.read(t21), beta, pre)
                        init = " ".join(f"(= ({' '.join(k)}) {fmt_num(x)})" for k, x in pre.fluents.items())
                        ptxt = f"(define (problem p) (:domain c12) (:objects o1 o2 - t1) (:init {init}) (:goal (and)))"

                        def q():
                            P = parse_problem(ptxt, D)
                            op = operator(D, "a", list(args), P.objects)
                            s0 = create_initial_state(P)
                            return [op.is_applicable(s0), observe_state(op.apply(s0, skip_validation=True)).fluents]
                        got = guard(q)
                        r.count("transitions")
                        r.seen("states", digest((p1, p2, e, tgt, args, vals)))
                        if isinstance(got, Raised) or got[0] is not want_app or got[1] != exp:
                            r.fail("argument-order", f"parameters ({p1} {p2}), call (a {' '.join(args)}): (>= {e} 1) / (assign {tgt} {e}) "
                                   f"(increase (f) {t21}) from d(o1,o2)={vals[0]} d(o2,o1)={vals[1]} f=1: "
                                   f"{got if isinstance(got, Raised) else [got[0], {' '.join(k): str(v) for k, v in got[1].items()}]}, expected "
                                   f"[{want_app}, { {' '.join(k): str(v) for k, v in exp.items()} }]", str(exp), str(got)[:300],
                                   tags=["argorder"])
                            return


def _numnorm(t):
    if isinstance(t, list):
        return [_numnorm(x) for x in t]
    return str(Fraction(t)) if is_number(t) else t


def check_case(case):
    r = CaseResult()
    if case["kind"] == "undefined":
        check_undefined(r, case)
        return r
    {"eval": check_eval, "boundary": check_boundary, "print": check_print, "mutual": check_mutual,
     "near": check_near, "chain": check_chain, "argorder": check_argorder}[case["kind"]](r, case)
    return r
