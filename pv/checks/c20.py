"""C20 — grounding is substitution of the call's arguments for the parameters.

Space: every in-fragment program of the V-domain corpus x every type-correct call (repeated objects,
the constant in any position, subtype-narrowed parameters).
Oracle: substitute positionally in the SOURCE text (pv.refsem reading); compare with the literals /
expressions the library reports: iteration over operator.grounded_preconditions, each effect group's
grounded_discrete_effects / grounded_numeric_effects (groups matched by their conditions), the typed
form str(GroundedPredicate), typed_action_call.  Nothing added, nothing omitted.
"""
from collections import Counter
from fractions import Fraction

from .. import sexp
from ..bridge import guard, Raised
from ..core import Prog
from ..gens import vdom
from ..refsem import parse_typed_list, is_number, RefError
from ..runner import CaseResult, digest

ID = "C20"
RULE = ("every in-fragment precondition and effect program of the bounded grammar (quick alphabets of C02/C03) x 6 "
        "parameter profiles x every type-correct call over o1:t1 o2:t2 o3:t3 (+constant c:t1): repeated objects, "
        "constant arguments, a t2 object at a t1 position; compared (as sets: two schema literals that ground to the same literal are one): (connective, literal) pairs of the "
        "precondition at all nesting levels, per effect group the multisets of add/delete literals and numeric "
        "expressions, typed literal text, typed action call. non-trivial = a call with a repeated object, a constant "
        "or a subtype object in some literal")
ASSUMPTIONS = ["(in)equality pairs are not part of the iteration over grounded preconditions and are judged by C02",
               "universally quantified effects are grounded only while they are applied and are judged by C03",
               "inside a universal precondition the expected literal keeps the quantified variable"]
CASE_TIMEOUT = 60


TWO_SCHEMAS = """(define (domain v2)
(:requirements :typing :negative-preconditions)
(:types t1 t3 - object t2 - t1)
(:predicates (r) (p ?a - t1) (q ?a - t1 ?b - t1) (m ?a - object))
(:action a :parameters (?x - t2 ?y - t1) :precondition (and (q ?x ?y) (not (p ?x))) :effect (and (not (q ?x ?y)) (m ?y) (p ?x)))
(:action b :parameters (?x - t1 ?y - t2) :precondition (and (q ?x ?y) (not (p ?x))) :effect (and (not (q ?x ?y)) (m ?y) (p ?x)))
(:action c :parameters (?x - t1 ?y - t1) :precondition (and (q ?x ?y) (m ?y)) :effect (and (p ?x) (not (m ?y)))))
"""


def cases(tier):
    yield {"kind": "two-schemas", "pre": "(q ?x ?y) in three schemas", "eff": "", "tags": ["two-schemas"], "domain": TWO_SCHEMAS}
    seen = set()
    for gen in (vdom.pre_programs, vdom.eff_programs):
        for p in gen(tier):
            if p["domain"] in seen:
                continue
            seen.add(p["domain"])
            yield dict(p)


def norm(tree):
    """numerals -> canonical Fraction text; everything else as is."""
    if isinstance(tree, str):
        if is_number(tree):
            return str(Fraction(tree))
        return tree
    return [norm(t) for t in tree]


def subst(tree, beta):
    if isinstance(tree, str):
        return beta.get(tree, tree)
    return [subst(t, beta) for t in tree]


def expected_pre(S, pre, beta):
    """multiset of (connective, normalised literal text); the variant with quantified literals left lifted is
    returned as well (known-finding deviation)."""
    out, out_lifted = Counter(), Counter()

    def walk(phi, conn, b, in_forall):
        if not phi:
            return
        h = phi[0]
        if h in ("and", "or"):
            for x in phi[1:]:
                walk(x, h, b, in_forall)
        elif h == "forall":
            var = parse_typed_list(phi[1])[0][0]
            b2 = {k: v for k, v in b.items() if k != var}
            walk(phi[2], conn, b2, True)
        elif h == "=" and len(phi) == 3 and isinstance(phi[1], str) and isinstance(phi[2], str) \
                and not is_number(phi[1]) and not is_number(phi[2]):
            return  # object (in)equality: not part of the iteration
        elif h == "not" and phi[1][0] == "=" and isinstance(phi[1][1], str) and not is_number(phi[1][1]):
            return
        else:
            out[(conn, sexp.dumps(norm(subst(phi, b))))] += 1
            out_lifted[(conn, sexp.dumps(norm(phi if in_forall else subst(phi, b))))] += 1

    if pre and pre[0] in ("and", "or"):
        walk(pre, pre[0], beta, False)
    elif pre:
        walk(pre, "and", beta, False)
    return out, out_lifted


def expected_groups(S, eff, beta):
    """list of (condition multiset or None, discrete multiset, numeric multiset); forall effects skipped."""
    top = (None, Counter(), Counter())
    groups = [top]

    def body(e, grp):
        h = e[0]
        if h == "and":
            for x in e[1:]:
                body(x, grp)
        elif h in ("assign", "increase", "decrease"):
            grp[2][sexp.dumps(norm(subst(e, beta)))] += 1
        else:
            grp[1][sexp.dumps(norm(subst(e, beta)))] += 1

    for e in (eff[1:] if eff and eff[0] == "and" else [eff]):
        if e[0] == "forall":
            continue
        if e[0] == "when":
            cond = e[1]
            c, _ = expected_pre(S, cond if cond[0] in ("and", "or") else ["and", cond], beta)
            g = (c, Counter(), Counter())
            body(e[2], g)
            groups.append(g)
        else:
            body(e, top)
    return groups


def observed_pre(gp):
    out = Counter()
    for conn, operand in gp:
        if hasattr(operand, "untyped_representation"):
            text = operand.untyped_representation
        else:
            text = operand.to_pddl(12)
        out[(conn, sexp.dumps(norm(sexp.read(text))))] += 1
    return out


def expected_typed(S, act, lit, beta, objs):
    """'(q o1 - t2 c - t1)': parameter's type for parameters, own type for constants."""
    atom = lit[1] if lit[0] == "not" else lit
    ptype = dict(act.params)
    parts = []
    for a in atom[1:]:
        if a in ptype:
            parts.append(f"{beta[a]} - {ptype[a]}")
        else:
            parts.append(f"{a} - {S.constants[a]}")
    txt = f"({atom[0]} {' '.join(parts)})"
    return f"(not {txt})" if lit[0] == "not" else txt


def check_two_schemas(case):
    """three schemas of ONE domain share literal texts and parameter names but type the parameters differently; they are
    grounded one after the other with the same objects, in every order: each reports the typed literals of its own schema"""
    from itertools import permutations
    from ..bridge import parse_domain, operator
    from ..refsem import RefDomain
    from pddl_plus_parser.models import PDDLObject
    r = CaseResult()
    r.nontrivial = True
    S = RefDomain.from_tree(sexp.read(TWO_SCHEMAS))
    objs = {"o2": "t2", "o5": "t2"}
    for order in permutations(["a", "b", "c"]):
        D = parse_domain(TWO_SCHEMAS)
        pobjs = {o: PDDLObject(o, D.types[t]) for o, t in objs.items()}
        for name in order:
            for args in (["o2", "o5"], ["o2", "o2"]):
                act = S.actions[name]
                beta = dict(zip([p for p, _ in act.params], args))

                def typed():
                    op = operator(D, name, args, pobjs)
                    op.ground()
                    pre = Counter(str(o) for _, o in op.grounded_preconditions if hasattr(o, "object_mapping"))
                    eff = Counter(str(p) for ge in op.grounded_effects for p in ge.grounded_discrete_effects)
                    return pre, eff
                got = guard(typed)
                r.count("transitions")
                r.seen("states", digest((order, name, tuple(args))))
                lits_pre = [l for l in act.pre[1:]]
                lits_eff = [l for l in act.eff[1:]]
                want_pre = Counter(expected_typed(S, act, l, beta, objs) for l in lits_pre)
                want_eff = Counter(expected_typed(S, act, l, beta, objs) for l in lits_eff)
                if isinstance(got, Raised) or set(got[0]) != set(want_pre) or set(got[1]) != set(want_eff):
                    r.outcome("typed-differs")
                    r.fail("typed-literals", f"schemas grounded in the order {order}: ({name} {' '.join(args)}) reports typed literals "
                           f"{got if isinstance(got, Raised) else (sorted(got[0]), sorted(got[1]))}, expected "
                           f"{(sorted(want_pre), sorted(want_eff))}", str((sorted(want_pre), sorted(want_eff))), str(got)[:300],
                           tags=["two-schemas"])
                    return r
        r.outcome("agree")
    return r


def check_case(case):
    if case.get("kind") == "two-schemas":
        return check_two_schemas(case)
    r = CaseResult()
    pg = Prog(case)
    if not pg.parsed:
        r.skipped = "parse-raised (C01's business)"
        return r
    S = pg.S
    act = S.actions["a"]
    # attribution (DESIGN §2.4): grounding is judged against the schema the parser produced; a parser that
    # altered the schema is C01's business.  The source reading is used only when no abstraction is available.
    schema = pg.P.actions["a"] if pg.P is not None and "a" in pg.P.actions else act
    if [t for _, t in schema.params] != [t for _, t in act.params] or len(schema.params) != len(act.params):
        r.skipped = "parsed signature differs from the source (C01's business)"
        return r
    ptype = dict(act.params)
    for args in S.calls(act, pg.objs):
        beta = dict(zip([p for p, _ in act.params], args))
        special = len(set(args)) < len(args) or any(a in S.constants for a in args) or \
            any(pg.objs[a] != ptype[p] for p, a in beta.items())
        r.nontrivial |= special
        r.seen("states", digest((case["domain"], args)))
        from ..bridge import operator
        from pddl_plus_parser.models import PDDLObject
        pobjs = {o: PDDLObject(o, pg.D.types[t]) for o, t in pg.objects.items()}

        def ground():
            op = operator(pg.D, "a", args, pobjs)
            op.ground()
            return op
        op = guard(ground)
        r.count("transitions")
        if isinstance(op, Raised):
            r.outcome("ground-raised")
            r.fail("ground-raised", f"grounding (a {' '.join(args)}) raised {op}; pre={case['pre']} eff={case['eff']}",
                   "grounded", op.to_json(), tags=case["tags"])
            break
        # preconditions
        want, want_lifted = expected_pre(S, schema.pre, beta)
        got = guard(observed_pre, op.grounded_preconditions)
        if isinstance(got, Raised) or set(got) != set(want):
            if not isinstance(got, Raised) and set(got) == set(want_lifted):
                r.outcome("quantified-literals-lifted")
                r.fail("precondition-literals-under-forall",
                       f"(a {' '.join(args)}): literals under a universal precondition are reported lifted: "
                       f"{sorted(got.items())} expected {sorted(want.items())}; pre={case['pre']}",
                       sorted(want.items()), sorted(got.items()), tags=case["tags"])
            else:
                r.outcome("pre-differs")
                r.fail("precondition-literals", f"(a {' '.join(args)}): reported "
                       f"{sorted(got.items()) if not isinstance(got, Raised) else got} expected {sorted(want.items())}; "
                       f"pre={case['pre']}", sorted(want.items()), str(got), tags=case["tags"])
            break
        # typed literal text of every predicate literal outside quantifiers (all nesting levels)
        typed_bad = None
        lits = []

        def collect(phi, in_forall=False):
            if not phi or isinstance(phi, str):
                return
            h = phi[0]
            if h in ("and", "or"):
                for x in phi[1:]:
                    collect(x, in_forall)
            elif h == "forall":
                collect(phi[2], True)
            elif not in_forall and (h in S.predicates or (h == "not" and phi[1][0] in S.predicates)):
                lits.append(phi)
        collect(schema.pre)
        want_typed = Counter(expected_typed(S, act, l, beta, pg.objs) for l in lits)
        got_typed = guard(lambda: Counter(str(o) for _, o in op.grounded_preconditions
                                          if hasattr(o, "object_mapping")))
        if isinstance(got_typed, Raised) or set(want_typed) != set(got_typed):
            typed_bad = (want_typed, got_typed if not isinstance(got_typed, Raised) else Counter({str(got_typed): 1}))
        if typed_bad:
            r.outcome("typed-differs")
            r.fail("typed-literals", f"(a {' '.join(args)}): typed literals {sorted(typed_bad[1].items())} expected "
                   f"{sorted(typed_bad[0].items())}; pre={case['pre']} params={act.params}",
                   sorted(typed_bad[0].items()), sorted(typed_bad[1].items()), tags=case["tags"])
            break
        # effect groups
        want_groups = expected_groups(S, schema.eff, beta)

        def observed_groups():
            out = []
            for ge in op.grounded_effects:
                cond = observed_pre(ge.grounded_antecedents) if ge.grounded_antecedents is not None else None
                disc = Counter(sexp.dumps(norm(sexp.read(p.untyped_representation))) for p in ge.grounded_discrete_effects)
                nume = Counter(sexp.dumps(norm(sexp.read(e.to_pddl(12)))) for e in ge.grounded_numeric_effects)
                out.append((cond, disc, nume))
            return out
        got_groups = guard(observed_groups)
        key = lambda g: repr((sorted(g[0]) if g[0] is not None else None, sorted(g[1]), sorted(g[2])))
        if isinstance(got_groups, Raised) or sorted(map(key, got_groups)) != sorted(map(key, want_groups)):
            r.outcome("effects-differ")
            r.fail("effect-literals", f"(a {' '.join(args)}): groups "
                   f"{sorted(map(key, got_groups)) if not isinstance(got_groups, Raised) else got_groups} expected "
                   f"{sorted(map(key, want_groups))}; eff={case['eff']}", str(sorted(map(key, want_groups))),
                   str(got_groups), tags=case["tags"])
            break
        # typed action call
        tac = guard(lambda: sexp.read(op.typed_action_call))
        want_names = ["a"]
        ok = not isinstance(tac, Raised) and tac[:1] == ["a"]
        if ok:
            try:
                pairs = parse_typed_list(tac[1:])
                ok = [n for n, _ in pairs] == list(args) and all(
                    t in (pg.objs[a], ptype[p]) for (n, t), a, (p, _) in zip(pairs, args, act.params))
            except RefError:
                ok = False
        if not ok:
            r.outcome("typed-call-differs")
            r.fail("typed-action-call", f"(a {' '.join(args)}): typed_action_call={tac}", list(args), str(tac),
                   tags=case["tags"])
            break
        # an operator made without the problem's objects names every position by its parameter's type
        tac2 = guard(lambda: sexp.read(operator(pg.D, "a", args, None).typed_action_call))
        ok = not isinstance(tac2, Raised) and tac2[:1] == ["a"]
        if ok:
            try:
                pairs = parse_typed_list(tac2[1:])
                ok = [n for n, _ in pairs] == list(args) and [t for _, t in pairs] == [t for _, t in act.params]
            except RefError:
                ok = False
        if not ok:
            r.outcome("typed-call-differs")
            r.fail("typed-action-call", f"(a {' '.join(args)}) without problem objects: typed_action_call={tac2}, expected "
                   f"the parameter types {[t for _, t in act.params]} position by position", list(args), str(tac2),
                   tags=case["tags"] + ["no-problem-objects"])
            break
        # a call on domain constants only, with the (empty) object table of a problem that declares no objects: the
        # constants print with their own types, as with any other object table
        if args and all(a in S.constants for a in args):
            tac3 = guard(lambda: sexp.read(operator(pg.D, "a", args, {}).typed_action_call))
            ok = not isinstance(tac3, Raised) and tac3[:1] == ["a"]
            if ok:
                try:
                    pairs = parse_typed_list(tac3[1:])
                    ok = [n for n, _ in pairs] == list(args) and [t for _, t in pairs] == [S.constants[a] for a in args]
                except RefError:
                    ok = False
            if not ok:
                r.outcome("typed-call-differs")
                r.fail("typed-action-call", f"(a {' '.join(args)}) with an empty problem object table: typed_action_call={tac3}, "
                       f"expected the constants' own types {[S.constants[a] for a in args]}", list(args), str(tac3),
                       tags=case["tags"] + ["empty-object-table"])
                break
        # what was grounded stays what it is: after the operator has been applied (to a state without any fact, then to
        # one with the mentioned fluents defined) the same literals and expressions are reported
        def after_use():
            from ..refsem import mentioned, RefState
            from pddl_plus_parser.models import State
            for st in (None, RefState([], {f: Fraction(1) for f in mentioned(S, act, args, pg.objs)[1]})):
                target = State(predicates={}, fluents={}, is_init=False) if st is None else pg.lib_state(st)[0]
                try:
                    op.apply(target, allow_inapplicable_actions=True)
                except Exception:  # noqa (an undefined fluent in an empty state: the use is what matters here)
                    pass
            return observed_groups(), observed_pre(op.grounded_preconditions)
        again = guard(after_use)
        r.count("transitions")
        if isinstance(again, Raised) or sorted(map(key, again[0])) != sorted(map(key, want_groups)) or set(again[1]) != set(got):
            r.outcome("grounded-changed-by-use")
            r.fail("effect-literals", f"(a {' '.join(args)}): after the operator was applied, its grounded literals read "
                   f"{sorted(map(key, again[0])) if not isinstance(again, Raised) else again} / preconditions "
                   f"{sorted(again[1].items()) if not isinstance(again, Raised) else ''}; expected {sorted(map(key, want_groups))} "
                   f"as right after grounding; eff={case['eff']}", str(sorted(map(key, want_groups))), str(again)[:300],
                   tags=case["tags"] + ["after-use"])
            break
        # grounding again: a second ground() of the same operator, and a ground() after the operator has been pointed at
        # another call of the same schema (grounded_call_objects), report that call's literals - nothing accumulates
        calls_all = list(S.calls(act, pg.objs))
        other = calls_all[(calls_all.index(args) + 1) % len(calls_all)]
        beta2 = dict(zip([p for p, _ in act.params], other))

        def reground():
            op2 = operator(pg.D, "a", args, pobjs)
            op2.ground()
            op2.ground()
            same = ([(c, d, n) for c, d, n in _groups_of(op2)], observed_pre(op2.grounded_preconditions))
            op2.grounded_call_objects = list(other)
            op2.ground()
            moved = ([(c, d, n) for c, d, n in _groups_of(op2)], observed_pre(op2.grounded_preconditions))
            return same, moved
        rg = guard(reground)
        r.count("transitions")
        want2_groups = expected_groups(S, schema.eff, beta2)
        want2, want2_lifted = expected_pre(S, schema.pre, beta2)
        if isinstance(rg, Raised) or sorted(map(key, rg[0][0])) != sorted(map(key, want_groups)) or set(rg[0][1]) != set(got):
            r.outcome("grounded-changed-by-regrounding")
            r.fail("effect-literals", f"(a {' '.join(args)}): after a second ground() the operator reports groups "
                   f"{sorted(map(key, rg[0][0])) if not isinstance(rg, Raised) else rg}, expected {sorted(map(key, want_groups))} as after "
                   f"the first; eff={case['eff']}", str(sorted(map(key, want_groups))), str(rg)[:300], tags=case["tags"] + ["reground"])
            break
        if sorted(map(key, rg[1][0])) != sorted(map(key, want2_groups)) or set(rg[1][1]) not in (set(want2), set(want2_lifted)):
            r.outcome("grounded-changed-by-regrounding")
            r.fail("effect-literals", f"operator of (a {' '.join(args)}) pointed at (a {' '.join(other)}) and grounded again reports "
                   f"groups {sorted(map(key, rg[1][0]))} / preconditions {sorted(rg[1][1].items())}, expected "
                   f"{sorted(map(key, want2_groups))} / {sorted(want2.items())}; pre={case['pre']} eff={case['eff']}",
                   str(sorted(map(key, want2_groups))), str(rg[1])[:300], tags=case["tags"] + ["retarget"])
            break
        r.outcome("agree")
    return r


def _groups_of(op):
    out = []
    for ge in op.grounded_effects:
        cond = observed_pre(ge.grounded_antecedents) if ge.grounded_antecedents is not None else None
        disc = Counter(sexp.dumps(norm(sexp.read(p.untyped_representation))) for p in ge.grounded_discrete_effects)
        nume = Counter(sexp.dumps(norm(sexp.read(e.to_pddl(12)))) for e in ge.grounded_numeric_effects)
        out.append((cond, disc, nume))
    return out


def _lifted_under_forall(case, fail):
    # the clause is only raised when the reported literals equal the expected ones with the literals under a forall left lifted
    return fail["clause"] == "precondition-literals-under-forall" and "forall" in case.get("pre", "")


MATCHERS = {"lifted_under_forall": _lifted_under_forall}
