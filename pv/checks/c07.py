"""C07 — queries and transitions are pure: inputs and earlier results are never modified.

(1) Histories: explicit-state BFS over sequences of API events on one shared domain (ground, applicability
query, apply with flag combinations on any live state, RE-APPLY an earlier operator object to any live
state, print, export, serialize, parse_plan, parse another domain, combine agent domains).  A world is
the event history that reaches it (fresh real objects, events replayed); worlds are de-duplicated on a
canonical digest.  Invariant in every world: the domain's structural digest, every live state, a second
independently parsed domain and Domain().types / ObjectType have the value they had when created; the
result of every event equals the memoised result of the same event on equal inputs.
(2) Schedules: two real threads sharing the domain under a cooperative scheduler (pv.threadsched), every
schedule with <= 1 pre-emption at any library source line (quick) / 2 pre-emptions at sampled-free,
enumerated line pairs (thorough); each thread's result must equal its result when run alone.
"""
import os

from .. import sexp
from ..absmap import abs_domain
from ..bridge import guard, Raised, parse_domain, parse_problem, observe_state, operator, write_tmp, scratch_dir
from ..core import show
from ..gens import minidoms as md
from ..refsem import RefState
from ..runner import CaseResult, digest
from .c08 import abs_key

ID = "C07"
CALLS = [("sweep", ("a",)), ("link", ("a", "b")), ("mark", ("w",)), ("bump", ()), ("sweep", ("b",)), ("gate", ()),
         ("mark", ("d",))]
BFS_CALLS = 4  # the history alphabet uses the first four; the fifth (a second quantified call) is for the thread pairs
FLAGS = [{}, {"skip_validation": True}, {"allow_inapplicable_actions": True}]
RULE = ("histories: cond mini-domain (forall precondition, forall-when / when / numeric effects, constant); events: "
        "apply(call, state j, flags) [4 calls x <= 3 live states x 3 flag sets], is_applicable(call, j), re-apply(earlier "
        "operator i, j), print preconditions, export domain, serialize(j), parse_plan([call]), run an unrelated numeric domain (repeated object in a function term), parse another typed / untyped "
        "domain, combine agent domains, query a same-named variant domain with the same call; BFS to depth 3 (quick) / 4 (thorough), one case per first event, worlds "
        "de-duplicated on (live states, live operators' calls); schedules: thread A apply(call1,s0) || thread B in "
        "{apply(call2,s0), is_applicable(call3,s0), export}, all single pre-emptions at every library line "
        "(both start orders), thorough: all pairs of pre-emptions on a 1-in-8 line grid; table-less operators: one Operator built without problem_objects driven through every history of 2 (quick) / 3 (thorough) events {query, apply, unvalidated apply, print} x 32 states of a two-object universe, every answer against a fresh table-less operator. states = distinct worlds; "
        "transitions = events executed; non-trivial = every case")
ASSUMPTIONS = ["scheduling points are library source lines; CPython may switch between bytecodes of one line",
               "the digest reads public attributes only (structural walk via pv.absmap) and never calls library printing code"]
CASE_TIMEOUT = 900
MAX_STATES = 3
MAX_OPS = 2
OTHER_T = "(define (domain o1) (:requirements :typing) (:types x1 - object x2 - x1) (:predicates (zp ?a - x2)) " \
          "(:action za :parameters (?a - x2) :precondition (and (zp ?a)) :effect (and (not (zp ?a)))))"
OTHER_U = "(define (domain o2) (:predicates (zq ?a)) (:action zb :parameters (?a) :precondition (and) :effect (and (zq ?a))))"


def events(n_states, n_ops):
    ev = []
    for j in range(n_states):
        for ci in range(BFS_CALLS):
            ev.append(["is_applicable", ci, j])
            for fi in range(len(FLAGS)):
                ev.append(["apply", ci, j, fi])
        ev.append(["serialize", j])
        for oi in range(n_ops):
            ev.append(["reapply", oi, j])
            ev.append(["requery", oi, j])
    ev += [["print"], ["export"], ["parse_plan", 0], ["parse_plan", 1], ["parse_other", "typed"], ["parse_other", "untyped"],
           ["combine"], ["variant", 0], ["variant", 1], ["other_numeric"]]
    return ev


def cases(tier):
    depth = 3 if tier == "quick" else 4
    for e in events(1, 0):
        yield {"kind": "bfs", "first": e, "depth": depth}
    pairs = [(0, ("apply", 1)), (0, ("is_applicable", 4)), (0, ("export",)), (1, ("apply", 2)), (4, ("is_applicable", 0))]
    for pi, (a, b) in enumerate(pairs):
        for first in (0, 1):
            for chunk in range(8):
                yield {"kind": "threads", "a": a, "b": list(b), "first": first, "chunk": chunk, "chunks": 8,
                       "bound": 1}
    # three-level type tree; the deepest type is first asked about inside the threads
    for a, b in [(5, ("is_applicable", 5)), (5, ("apply", 6))]:
        for first in (0, 1):
            for chunk in range(8):
                yield {"kind": "threads", "a": a, "b": list(b), "first": first, "chunk": chunk, "chunks": 8,
                       "bound": 1, "deep": True}
    # operators built WITHOUT the optional object table, re-used over states that mention different objects
    nt_chunks = 4 if tier == "quick" else 32
    for oi in range(len(NT_CALLS)):
        for chunk in range(nt_chunks):
            yield {"kind": "notable", "op": oi, "chunk": chunk, "chunks": nt_chunks, "length": 2 if tier == "quick" else 3}
    if tier != "quick":
        for pi, (a, b) in enumerate(pairs[:2]):
            for chunk in range(16):
                yield {"kind": "threads", "a": a, "b": list(b), "first": 0, "chunk": chunk, "chunks": 16, "bound": 2}


# ------------------------------------------------------------------------------------------------


def dom_digest(D):
    P = abs_domain(D)
    sigs = [(n, [(k, t.name) for k, t in a.signature.items()]) for n, a in D.actions.items()]
    values = sorted((n, repr(getattr(f, "value", None)), sorted(getattr(f, "repeating_variables", {}) or {}))
                    for n, f in D.functions.items())
    return repr((abs_key(P), sigs, sorted(D.types), sorted(D.constants), sorted(D.predicates), sorted(D.functions), values))


def default_types_digest():
    from pddl_plus_parser.models import Domain, ObjectType
    return repr((sorted(Domain().types.keys()), ObjectType.name, ObjectType.parent))


def deep_variant(dt, pt):
    """the cond mini-domain with one more level in the type tree and an object of the deepest type that occurs in no
    fact: the first query about its type is made by whoever uses it first (for the thread pairs: inside the threads),
    and `gate` (forall over the parent type) is inapplicable only because of that object."""
    dt2 = dt.replace("(:types t1 t3 - object t2 - t1)", "(:types t1 t3 - object t2 - t1 t4 - t3)")
    pt2 = pt.replace("w - t3)", "w - t3 d - t4)").replace("(= (cnt) 0)", "(= (cnt) 0) (m w)")
    assert dt2 != dt and pt2.count("d - t4") == 1 and pt2.count("(m w)") == 1
    return dt2, pt2


class WorldC07:
    def __init__(self, deep=False):
        dt, pt = md.ALL["cond"]
        if deep:
            dt, pt = deep_variant(dt, pt)
        self.second = parse_domain(OTHER_T)
        self.second_digest = dom_digest(self.second)
        self.defaults = default_types_digest()
        self.D = parse_domain(dt)
        self.P = parse_problem(pt, self.D)
        from pddl_plus_parser.multi_agent.common import create_initial_state
        self.states = [create_initial_state(self.P)]
        self.state_vals = [observe_state(self.states[0])]
        self.ops = []
        self.op_calls = []
        self.digest0 = dom_digest(self.D)
        self.objects0 = sorted((n, o.type.name) for n, o in self.P.objects.items())
        self.alerts = []
        self.expected = None

    def key(self):
        return (tuple(s.key() for s in self.state_vals), tuple(self.op_calls))


MEMO = {}
_REF = {}


def ref_world(text_key, dt, pt):
    if text_key not in _REF:
        from ..refsem import RefDomain, RefProblem
        S = RefDomain.from_tree(sexp.read(dt))
        RP = RefProblem.from_tree(sexp.read(pt))
        _REF[text_key] = (S, RP, S.all_objects(RP.objects))
    return _REF[text_key]


def ref_answer(S, objs, ci, st: RefState, what, flags=None):
    """what the call returns when made alone, by the reference; None when the reference leaves it undefined"""
    from ..refsem import applicable, successor, Inconsistent, RefUndefined, RefError
    name, args = CALLS[ci]
    act = S.actions[name]
    try:
        ok = applicable(S, act, args, st, objs)
        if what == "is_applicable":
            return ok
        if not ok and not (flags or {}):
            return {"raised": "ValueError"}
        return successor(S, act, args, st, objs).to_json()
    except (Inconsistent, RefUndefined, RefError):
        return None


def do_event(w: WorldC07, e):
    """executes one event; returns (memo key, observation)"""
    kind = e[0]
    if kind in ("apply", "is_applicable"):
        name, args = CALLS[e[1]]
        st = w.states[e[2]]
        op = operator(w.D, name, list(args), w.P.objects)
        S, RP, objs = ref_world("main", *md.ALL["cond"])
        if kind == "is_applicable":
            res = guard(op.is_applicable, st)
            w.expected = ref_answer(S, objs, e[1], w.state_vals[e[2]], "is_applicable")
            return ("is_applicable", e[1], w.state_vals[e[2]].key()), show(res)
        w.expected = ref_answer(S, objs, e[1], w.state_vals[e[2]], "apply", FLAGS[e[3]])
        res = guard(lambda: op.apply(st, **FLAGS[e[3]]))
        obs = guard(observe_state, res) if not isinstance(res, Raised) else res
        if not isinstance(res, Raised) and not isinstance(obs, Raised) and len(w.states) < MAX_STATES:
            w.states.append(res)
            w.state_vals.append(obs)
        if len(w.ops) < MAX_OPS:
            w.ops.append(op)
            w.op_calls.append(e[1])
        return ("apply", e[1], w.state_vals[e[2]].key(), e[3]), show(obs)
    if kind in ("reapply", "requery"):
        if e[1] >= len(w.ops) or e[2] >= len(w.states):
            return None, None
        op, ci = w.ops[e[1]], w.op_calls[e[1]]
        st = w.states[e[2]]
        if kind == "requery":
            return ("is_applicable", ci, w.state_vals[e[2]].key()), show(guard(op.is_applicable, st))
        res = guard(lambda: op.apply(st))
        obs = guard(observe_state, res) if not isinstance(res, Raised) else res
        if not isinstance(obs, Raised) and len(w.states) < MAX_STATES:
            w.states.append(res)
            w.state_vals.append(obs)
        return ("apply", ci, w.state_vals[e[2]].key(), 0), show(obs)
    if kind == "serialize":
        if e[1] >= len(w.states):
            return None, None
        # the ':init' / ':state' tag is not part of the state's value: compare the items only
        return ("serialize", w.state_vals[e[1]].key()), show(guard(
            lambda: sorted(sexp.dumps(x) for x in sexp.read(w.states[e[1]].serialize())[1:])))
    if kind == "print":
        def q():
            out = [sexp.dumps(sexp.read(str(a.preconditions))) for a in w.D.actions.values()]
            # the printing properties of operators (kept ones and a fresh one) and of states
            ops = list(w.ops) + [operator(w.D, CALLS[0][0], list(CALLS[0][1]), w.P.objects)]
            for op in ops:
                out.append([str(op), op.typed_action_call])
            for st in w.states:
                out.append(sorted(sexp.dumps(x) for x in sexp.read(st.typed_serialize())[1:]) if hasattr(st, "typed_serialize") else None)
            return out
        return ("print", tuple(w.op_calls), tuple(s.key() for s in w.state_vals)), show(guard(q))
    if kind == "export":
        from pddl_plus_parser.exporters import DomainExporter
        return ("export",), show(guard(lambda: sexp.dumps(sexp.read(DomainExporter().extract_domain(w.D)))))
    if kind == "parse_plan":
        from pddl_plus_parser.exporters import TrajectoryExporter
        name, args = CALLS[e[1]]
        line = "(" + " ".join((name,) + tuple(args)) + ")"
        res = guard(lambda: TrajectoryExporter(w.D).parse_plan(w.P, action_sequence=[line, line]))
        obs = guard(lambda: [observe_state(t.next_state).to_json() for t in res]) if not isinstance(res, Raised) else res
        if not isinstance(res, Raised) and len(res) >= 1:
            # exporting (the whole, a tail, the whole again) leaves the triplets' states as they are, their
            # ':init' / ':state' tag included
            def tags_of():
                return [(t.previous_state.is_init, t.previous_state.serialize().split()[0],
                         t.next_state.is_init, t.next_state.serialize().split()[0]) for t in res]
            before = guard(tags_of)
            texts = guard(lambda: ["".join(TrajectoryExporter.export(res)), "".join(TrajectoryExporter.export(res[1:])) if len(res) > 1 else "",
                                   "".join(TrajectoryExporter.export(res[-1:])), "".join(TrajectoryExporter.export(res))])
            after = guard(tags_of)
            if isinstance(before, Raised) or isinstance(after, Raised) or before != after:
                w.alerts.append(f"exporting a trajectory (whole, tail, last step, whole) changed the init tags of the triplets' "
                                f"states from {before} to {after}")
            elif not isinstance(texts, Raised) and texts[0] != texts[3]:
                w.alerts.append(f"the same trajectory exports differently after its tail was exported: {texts[0][:300]!r} / {texts[3][:300]!r}")
        return ("parse_plan", e[1]), show(obs)
    if kind == "parse_other":
        res = guard(parse_domain, OTHER_T if e[1] == "typed" else OTHER_U)
        return ("parse_other", e[1]), show(guard(lambda: sorted(res.types.keys())))
    if kind == "variant":
        # an independent domain with the SAME name and action names but other preconditions, queried with the same call
        dt, pt = md.ALL["cond"]
        vt = dt.replace("(and (p ?x) (forall (?z - t2) (or (m ?z) (not (p ?z)))))", "(and (not (p ?x)))") \
               .replace("(and (not (= ?x ?y)) (or (p ?x) (r)))", "(and (= ?x ?y))")
        assert vt != dt

        def q():
            V = parse_domain(vt)
            VP = parse_problem(pt, V)
            from pddl_plus_parser.multi_agent.common import create_initial_state
            name, args = CALLS[e[1]]
            op = operator(V, name, list(args), VP.objects)
            ok = op.is_applicable(create_initial_state(VP))
            nxt = observe_state(op.apply(create_initial_state(VP), skip_validation=True)).to_json()
            return [ok, nxt]
        VS, VRP, vobjs = ref_world("variant", vt, pt)
        a1 = ref_answer(VS, vobjs, e[1], VRP.state(), "is_applicable")
        a2 = ref_answer(VS, vobjs, e[1], VRP.state(), "apply", {"skip_validation": True})
        w.expected = [a1, a2] if a1 is not None and a2 is not None else None
        return ("variant", e[1]), show(guard(q))
    if kind == "other_numeric":
        # an unrelated numeric domain; the call binds one object to both parameters of a function term
        ndt, npt = md.ALL["numeric"]

        def q():
            N = parse_domain(ndt)
            NP = parse_problem(npt, N)
            from pddl_plus_parser.multi_agent.common import create_initial_state
            s1 = operator(N, "xfer", ["b", "b"], NP.objects).apply(create_initial_state(NP))
            return observe_state(s1).to_json()
        return ("other_numeric",), show(guard(q))
    if kind == "combine":
        from pathlib import Path
        from pddl_plus_parser.multi_agent import MultiAgentDomainsConverter
        d = Path(scratch_dir()) / f"ma_{os.getpid()}"
        d.mkdir(exist_ok=True)
        (d / "domain-x.pddl").write_text(OTHER_T.replace("o1", "ma"))
        (d / "domain-y.pddl").write_text(OTHER_T.replace("o1", "ma").replace("zp", "zr").replace("za", "zc"))
        def q():
            conv = MultiAgentDomainsConverter(d)
            res = conv.locate_domains()
            first = (sorted(res.types.keys()), sorted(res.actions.keys()), sorted(res.predicates.keys()))
            # the result handed out stays what it was when the same converter is asked again, differently
            conv.locate_domains(add_dummy_actions=True)
            after = (sorted(res.types.keys()), sorted(res.actions.keys()), sorted(res.predicates.keys()))
            again = conv.locate_domains()
            third = (sorted(again.types.keys()), sorted(again.actions.keys()), sorted(again.predicates.keys()))
            return [first, after, third]
        out = guard(q)
        if not isinstance(out, Raised) and not (out[0] == out[1] == out[2]):
            w.alerts.append(f"a combined domain handed out by a converter changed when the same converter was asked again, or "
                            f"the converter answered the same question differently: {out}")
        return ("combine",), show(out)
    raise ValueError(e)


_ALONE = {}


def alone_in_fresh_process(e, w):
    import json as _json
    import subprocess
    import sys as _sys
    from ..runner import VERIF
    from ..bridge import REPO
    if e[0] == "variant":
        q = {"kind": "variant", "call": e[1]}
    elif e[0] in ("apply", "is_applicable"):
        q = {"kind": e[0], "call": e[1], "state": w.state_vals[e[2]].to_json(), "flags": e[3] if e[0] == "apply" else 0}
    elif e[0] in ("reapply", "requery"):
        q = {"kind": "apply" if e[0] == "reapply" else "is_applicable", "call": w.op_calls[e[1]],
             "state": w.state_vals[e[2]].to_json(), "flags": 0}
    else:
        return None
    key = _json.dumps(q, sort_keys=True)
    if key not in _ALONE:
        p = subprocess.run([_sys.executable, "-m", "pv.c07_alone"], input=key, capture_output=True, text=True, cwd=VERIF,
                           env=dict(os.environ, PYTHONPATH=f"{REPO}:{VERIF}", PYTHONHASHSEED="0"), timeout=120)
        try:
            _ALONE[key] = _json.loads(p.stdout.strip().splitlines()[-1])
        except Exception:
            _ALONE[key] = None
    return _ALONE[key]


def _agrees(obs, exp):
    """observation (show() form) vs reference answer; exceptions compare by being exceptions of the refusal kind"""
    if isinstance(exp, list):
        return isinstance(obs, list) and len(obs) == len(exp) and all(_agrees(o, x) for o, x in zip(obs, exp))
    if isinstance(exp, dict) and "raised" in exp:
        return isinstance(obs, dict) and obs.get("raised") == exp["raised"]
    if isinstance(exp, dict) and isinstance(obs, dict) and "atoms" in exp and "atoms" in obs:
        from ..core import same_state
        return same_state(RefState.from_json(obs), RefState.from_json(exp), exact=False)
    return obs == exp


def invariant(r, w: WorldC07, hist):
    d = guard(dom_digest, w.D)
    if d != w.digest0:
        r.fail("domain-modified", f"after history {hist} the shared domain's structure changed:\n before {w.digest0[:600]}\n "
               f"after  {str(d)[:600]}", "unchanged", "changed", tags=[hist[-1][0]])
        return False
    for i, (st, val) in enumerate(zip(w.states, w.state_vals)):
        now = guard(observe_state, st)
        if bool(st.is_init) is not (i == 0):
            r.fail("state-modified", f"after history {hist} live state #{i} is tagged is_init={st.is_init} (the initial state is "
                   f"state #0, every other live state is a successor)", i == 0, st.is_init, tags=[hist[-1][0], "init-tag"])
            return False
        if isinstance(now, Raised) or now != val:
            r.fail("state-modified", f"after history {hist} live state #{i} changed from {val.to_json()} to {show(now)}",
                   val.to_json(), show(now), tags=[hist[-1][0]])
            return False
    if guard(dom_digest, w.second) != w.second_digest:
        r.fail("other-domain-modified", f"after history {hist} an independently parsed domain changed", "unchanged",
               "changed", tags=[hist[-1][0]])
        return False
    if w.alerts:
        r.fail("result-modified", f"after history {hist}: {w.alerts[0][:600]}", "unchanged", "changed", tags=[hist[-1][0]])
        return False
    objs_now = guard(lambda: sorted((n, o.type.name) for n, o in w.P.objects.items()))
    if objs_now != w.objects0:
        r.fail("problem-modified", f"after history {hist} the problem's object table changed: {w.objects0} -> {objs_now}",
               str(w.objects0), str(objs_now), tags=[hist[-1][0]])
        return False
    dt = guard(default_types_digest)
    if dt != w.defaults:
        r.fail("defaults-modified", f"after history {hist} Domain().types / ObjectType changed: {w.defaults} -> {dt}",
               w.defaults, str(dt), tags=[hist[-1][0]])
        return False
    return True


def build(r, hist, check=True):
    """fresh world, replay hist; memo + invariant checked on the LAST event only (prefixes were checked before)."""
    w = WorldC07()
    for i, e in enumerate(hist):
        w.expected = None
        key, obs = do_event(w, e)
        if key is None:
            return None
        last = i == len(hist) - 1
        if last and check:
            r.count("transitions")
            exp = getattr(w, "expected", None)
            w.expected = None
            if exp is not None and not _agrees(obs, exp):
                # arbitration in a FRESH interpreter: is it the history (impurity, C07) or the evaluator (C02/C03)?
                alone = alone_in_fresh_process(e, w)
                if alone is not None and not _agrees(obs, alone):
                    r.fail("result-vs-alone", f"history {hist}: event {e} returned {str(obs)[:400]}; the same call made alone in "
                           f"a fresh process returns {str(alone)[:400]} (reference: {str(exp)[:200]})", alone, obs, tags=[e[0]])
                    return None
                r.outcome("evaluator-disagreement (C02/C03's business)")
            if key in MEMO and MEMO[key] != obs:
                r.fail("result-differs", f"history {hist}: event {e} returned {str(obs)[:500]} but the same event on equal "
                       f"inputs returned {str(MEMO[key])[:500]} before", MEMO[key], obs, tags=[e[0]])
                return None
            MEMO.setdefault(key, obs)
            if not invariant(r, w, hist):
                return None
    return w


def check_bfs(r, case):
    first = case["first"]
    seen = set()
    frontier = [[first]]
    w = build(r, [first])
    if w is None:
        return
    seen.add(w.key())
    max_depth = 1
    while frontier and not r.fails:
        hist = frontier.pop(0)
        w = build(r, hist, check=False)
        if w is None:
            continue
        if len(hist) >= case["depth"]:
            continue
        for e in events(len(w.states), len(w.ops)):
            h2 = hist + [e]
            w2 = build(r, h2)
            if r.fails:
                return
            if w2 is None:
                continue
            max_depth = max(max_depth, len(h2))
            k = w2.key()
            r.seen("states", digest(k))
            if k not in seen:
                seen.add(k)
                frontier.append(h2)
    r.count("max_depth", 0)
    r.outcome(f"bfs-depth-{max_depth}")


# ------------------------------------------------------------------------------------------------
# threads


def thread_world(case):
    return WorldC07(deep=bool(case.get("deep")))


def thread_fns(w, a, b):
    name, args = CALLS[a]
    s0 = w.states[0]

    def fa():
        op = operator(w.D, name, list(args), w.P.objects)
        return [op.is_applicable(s0), observe_state(op.apply(s0, skip_validation=True)).to_json()]

    if b[0] == "apply":
        n2, a2 = CALLS[b[1]]

        def fb():
            op = operator(w.D, n2, list(a2), w.P.objects)
            return [op.is_applicable(s0), observe_state(op.apply(s0, skip_validation=True)).to_json()]
    elif b[0] == "is_applicable":
        n2, a2 = CALLS[b[1]]

        def fb():
            return operator(w.D, n2, list(a2), w.P.objects).is_applicable(s0)
    else:
        def fb():
            from pddl_plus_parser.exporters import DomainExporter
            return sexp.dumps(sexp.read(DomainExporter().extract_domain(w.D)))
    return [fa, fb]


def check_threads(r, case):
    from .. import threadsched
    w = thread_world(case)
    fns = thread_fns(w, case["a"], case["b"])
    alone = [("ok", f()) for f in thread_fns(thread_world(case), case["a"], case["b"])]
    first = case["first"]
    res0, steps, total = threadsched.run(fns, [], first=first)
    r.count("schedules")
    if [tuple(x) for x in res0] != [tuple(x) for x in alone]:
        r.fail("thread-result", f"sequential run of the two threads differs from each alone: {res0} vs {alone}", str(alone),
               str(res0), tags=["threads"])
        return
    n_first = steps[first]
    other = 1 - first
    if case["bound"] == 1:
        points = [k for k in range(n_first) if k % case["chunks"] == case["chunk"]]
        scheds = [[(k, other)] for k in points]
    else:
        grid = list(range(0, n_first, 8))
        n_other = steps[other]
        scheds = []
        idx = 0
        for k1 in grid:
            for k2 in range(0, n_other, 8):
                if idx % case["chunks"] == case["chunk"]:
                    scheds.append([(k1, other), (k1 + k2 + 1, first)])
                idx += 1
    for sch in scheds:
        w2 = thread_world(case)
        res, st2, tot2 = threadsched.run(thread_fns(w2, case["a"], case["b"]), sch, first=first)
        r.count("schedules")
        r.count("transitions", tot2)
        r.seen("states", digest((case["a"], tuple(case["b"]), first, tuple(sch))))
        if [tuple(x) for x in res] != [tuple(x) for x in alone]:
            r.fail("thread-result", f"threads A=apply{CALLS[case['a']]} B={case['b']} first={first} pre-emptions {sch}: results "
                   f"{str(res)[:600]} differ from the results of each thread alone {str(alone)[:600]}", str(alone)[:300],
                   str(res)[:300], tags=["threads"])
            return
        if guard(dom_digest, w2.D) != w2.digest0:
            r.fail("domain-modified", f"threads A=apply{CALLS[case['a']]} B={case['b']} pre-emptions {sch}: shared domain "
                   f"changed", "unchanged", "changed", tags=["threads"])
            return
    r.count("scheduling_points", total)
    r.outcome("threads-ok")


def check_case(case):
    r = CaseResult()
    r.nontrivial = True
    if case["kind"] == "bfs":
        check_bfs(r, case)
    elif case["kind"] == "notable":
        check_notable(r, case)
    else:
        check_threads(r, case)
    return r


# ------------------------------------------------------------------------------------------------
# operators without an object table (problem_objects=None is the constructor's default)

NT_DOMAIN = f"""(define (domain nt1)
{md.REQ}
(:types t1 - object t2 - t1)
(:predicates (p ?a - t1) (m ?a - t1) (w ?a - t2))
(:action clr :parameters (?x - t2)
  :precondition (and (forall (?z - t1) (and (m ?z))))
  :effect (and (not (w ?x)) (forall (?z - t1) (when (p ?z) (not (p ?z))))))
(:action tag :parameters (?x - t2) :precondition (and (m ?x)) :effect (and (w ?x) (not (m ?x)))))
"""
NT_FACTS = ["(p a)", "(p b)", "(m a)", "(m b)", "(w b)"]
NT_CALLS = [("clr", ["b"]), ("tag", ["b"])]
NT_KINDS = ["is_applicable", "apply", "apply-unvalidated", "print"]


def _nt_event(op, kind, st):
    if kind == "is_applicable":
        return show(guard(op.is_applicable, st))
    if kind == "print":
        return show(guard(lambda: [str(op), op.typed_action_call]))
    res = guard(lambda: op.apply(st, skip_validation=(kind == "apply-unvalidated")))
    return show(guard(observe_state, res) if not isinstance(res, Raised) else res)


def check_notable(r, case):
    """One Operator object built without an object table is driven through every history of `length` events (query,
    apply, unvalidated apply, print) over all 32 states of a two-object universe (the states mention different objects);
    every answer must equal the answer of a FRESH table-less operator to the same single event, and no state changes."""
    from itertools import product as _prod
    from pddl_plus_parser.multi_agent.common import create_initial_state
    D = parse_domain(NT_DOMAIN)
    d0 = dom_digest(D)
    states, vals = [], []
    for bits in _prod([0, 1], repeat=len(NT_FACTS)):
        init = " ".join(f for f, b in zip(NT_FACTS, bits) if b)
        P = parse_problem(f"(define (problem ntp) (:domain nt1) (:objects a - t1 b - t2) (:init {init}) (:goal (and)))", D)
        states.append(create_initial_state(P))
        vals.append(observe_state(states[-1]))
    name, args = NT_CALLS[case["op"]]
    alone = {}
    for kind in NT_KINDS:
        for j, st in enumerate(states):
            alone[(kind, j)] = _nt_event(operator(D, name, args, None), kind, st)
            r.count("transitions")
    evs = [(k, j) for k in NT_KINDS for j in range(len(states))]
    firsts = [e for i, e in enumerate(evs) if i % case["chunks"] == case["chunk"]]
    for first in firsts:
        for rest in _prod(evs, repeat=case["length"] - 1):
            hist = [first] + list(rest)
            op = operator(D, name, args, None)
            for i, (kind, j) in enumerate(hist):
                got = _nt_event(op, kind, states[j])
                r.count("transitions")
                if got != alone[(kind, j)]:
                    r.fail("result-differs", f"one table-less operator ({name} {' '.join(args)}) driven through "
                           f"{[(k, sorted(vals[x].atoms)) for k, x in hist[:i + 1]]}: the last event returned {str(got)[:300]}, a "
                           f"fresh table-less operator returns {str(alone[(kind, j)])[:300]} for it", alone[(kind, j)], got,
                           tags=["notable", kind])
                    return
            r.seen("states", digest((case["op"], tuple(hist))))
    for j, st in enumerate(states):
        now = guard(observe_state, st)
        if isinstance(now, Raised) or now != vals[j]:
            r.fail("state-modified", f"table-less operator histories changed input state {sorted(vals[j].atoms)} to {show(now)}",
                   vals[j].to_json(), show(now), tags=["notable"])
            return
    if guard(dom_digest, D) != d0:
        r.fail("domain-modified", "table-less operator histories changed the domain's structure", "unchanged", "changed",
               tags=["notable"])
        return
    r.outcome("notable-ok")
