"""C15 — sequential-to-joint plan conversion keeps actions, agent order and outcome.

Space: multi-agent mini-domains x 2 (quick) / 3 (thorough) agents x ALL valid sequential plans up to
length L found by BFS over applicable actions from the initial state (exhaustive, replacing the
quantifier's random walks) x plan-file layouts (bare, numbered) x with / without the shared-object
concurrency constraint; plus the sequential plans shipped with the repository's multi-agent tests.
Oracle: multiset of non-nop actions preserved; each agent's subsequence in original order; one slot per
agent in the given agent order; every member applicable in the step's pre-state and the members
non-interfering there (semantic definition; with the constraint on additionally no shared argument);
executing the joint plan with the REFERENCE interpreter reaches the sequential plan's final state.
"""
from collections import Counter
from itertools import product

from .. import sexp
from ..bridge import guard, Raised, parse_domain, parse_problem, write_tmp
from ..core import same_state, show
from ..gens import madoms
from ..refsem import RefState, applicable, successor, non_interfering, Inconsistent, RefUndefined
from ..runner import CaseResult, digest

ID = "C15"
RULE = ("domains ma1 / ma2 / ma3 / ma2b / ma4 (agent not the first parameter) x agents 2 (quick) / 3 (thorough); every valid sequential plan of length <= 4 (quick) / "
        "5 (thorough, 2 agents) / 4 (3 agents) from the initial state (BFS over applicable calls), each converted from a "
        "plan file in 2 layouts x concurrency constraint on/off; one case = one (domain, agents, first two steps) family; plus every prefix of the shipped sokoban (28 steps, 2 agents) "
        "and depots (100 steps, 10 agents) sequential plans. "
        "non-trivial = a plan in which some joint action has >= 2 members")
ASSUMPTIONS = ["the executing agent of a call is its first argument that is an agent (ma4: an item comes first; give / pass name two agents)",
               "interference is defined semantically (every member order executable and confluent in the step's pre-state)"]
CASE_TIMEOUT = 600
LEN = {"quick": {2: 4}, "thorough": {2: 5, 3: 4}}


def cases(tier):
    for name in madoms.ALL:
        for n, L in LEN[tier].items():
            S, RP, agents = madoms.ref(name, n)
            objs = S.all_objects(RP.objects)
            calls = [c for a in agents for c in madoms.agent_calls(S, objs, agents)[a]]
            s0 = RP.state()
            for c1 in calls:
                if not _app(S, c1, s0, objs):
                    continue
                yield {"domain": name, "agents": n, "prefix": [[c1[0], *c1[1]]], "length": 1}
                s1 = successor(S, S.actions[c1[0]], c1[1], s0, objs)
                for c2 in calls:
                    if _app(S, c2, s1, objs):
                        yield {"domain": name, "agents": n, "prefix": [[c1[0], *c1[1]], [c2[0], *c2[1]]], "length": L}
    for files in SHIPPED:
        for lo in range(0, 100, 10):
            yield {"kind": "shipped", "files": list(files), "prefixes": list(range(lo + 1, lo + 11)), "domain": files[0]}


SHIPPED = [("sokoban_domain.pddl", "sokoban_problem.pddl", "sokoban_plan.txt"),
           ("depots_domain.pddl", "depots_problem.pddl", "depots_plan.txt")]


def shipped_world(dom_file, prob_file, plan_file):
    import os
    from types import SimpleNamespace
    from ..bridge import REPO
    from ..refsem import RefDomain, RefProblem
    base = os.path.join(REPO, "tests", "multi_agent_tests")
    dt, pt = open(os.path.join(base, dom_file)).read(), open(os.path.join(base, prob_file)).read()
    S, RP = RefDomain.from_tree(sexp.read(dt)), RefProblem.from_tree(sexp.read(pt))
    plan = []
    for ln in open(os.path.join(base, plan_file)).read().splitlines():
        if "(" in ln:
            plan.append(sexp.read(ln[ln.index("("):]))
    agents = []
    for s_ in plan:
        if s_[1] not in agents:
            agents.append(s_[1])
    return SimpleNamespace(S=S, RP=RP, objs=S.all_objects(RP.objects), D=parse_domain(dt), ptext=pt, agents=agents,
                           per={}), plan


def _app(S, c, st, objs):
    try:
        return applicable(S, S.actions[c[0]], tuple(c[1]), st, objs)
    except (RefUndefined, Inconsistent):
        return False


_W = {}


def world(name, n):
    from .c16 import W
    if (name, n) not in _W:
        _W[(name, n)] = W(name, n)
    return _W[(name, n)]


def valid_extensions(w, st, depth):
    """all valid continuations (list of calls) of length <= depth from st"""
    yield [], st
    if depth == 0:
        return
    for a in w.agents:
        for c in w.per[a]:
            if _app(w.S, c, st, w.objs):
                try:
                    nxt = successor(w.S, w.S.actions[c[0]], c[1], st, w.objs)
                except (Inconsistent, RefUndefined):
                    continue
                for tail, fin in valid_extensions(w, nxt, depth - 1):
                    yield [[c[0], *c[1]]] + tail, fin


def check_plan(r, w, plan, final, tags):
    from pddl_plus_parser.multi_agent import PlanConverter
    lines = ["(" + " ".join(s) + ")" for s in plan]
    pairs_per_line = [" ".join(lines[i:i + 2]) for i in range(0, len(lines), 2)]
    layouts = [("bare", "\n".join(lines) + "\n"),
               ("numbered", "\n".join(f"{i}: {l.upper()}" for i, l in enumerate(lines)) + "\n")]
    if len(lines) >= 2:
        # the plan is the sequence of action calls of the file, however they are spread over lines
        layouts += [("two-per-line", "\n".join(pairs_per_line) + "\n"), ("one-line", " ".join(lines)),
                    ("wrapped", "\n".join(l.replace(" ", "\n  ", 1) for l in lines) + "\n")]
    for layout, text in layouts:
        path = write_tmp(text, ".plan")
        for constraint in (True, False):
            prob = parse_problem(w.ptext, w.D)
            res = guard(lambda: PlanConverter(w.D).convert_plan(prob, path, list(w.agents), constraint))
            r.count("histories")
            label = f"[{layout}, constraint={constraint}] plan {plan}"
            t = tags + [layout, f"constraint-{constraint}"]
            if isinstance(res, Raised):
                r.fail("convert-raised", f"{label}: convert_plan raised {res}", "joint plan", res.to_json(), tags=t)
                return False
            joint = [[[a.name] + list(a.parameters) for a in ja.actions] for ja in res]
            flat = [m for j in joint for m in j if m[0] != "nop"]
            if Counter(map(tuple, flat)) != Counter(map(tuple, plan)):
                r.fail("actions-preserved", f"{label}: joint plan {joint} does not contain exactly the plan's actions", plan,
                       joint, tags=t)
                return False
            for ag in w.agents:
                if [m for m in flat if madoms.agent_of(m[1:], w.agents) == ag] != [s for s in plan if madoms.agent_of(s[1:], w.agents) == ag]:
                    r.fail("agent-order", f"{label}: agent {ag}'s actions are reordered in {joint}", plan, joint, tags=t)
                    return False
            st = w.RP.state()
            multi = False
            for k, j in enumerate(joint):
                r.count("transitions")
                if len(j) != len(w.agents) or any(m[0] != "nop" and madoms.agent_of(m[1:], w.agents) != w.agents[i] for i, m in enumerate(j)):
                    r.fail("slots", f"{label}: joint action #{k} {j} does not have one slot per agent in agent order "
                           f"{w.agents}", w.agents, j, tags=t)
                    return False
                members = [(m[0], tuple(m[1:])) for m in j if m[0] != "nop"]
                multi |= len(members) >= 2
                try:
                    apps = [applicable(w.S, w.S.actions[n], a, st, w.objs) for n, a in members]
                    nxt = non_interfering(w.S, members, st, w.objs) if all(apps) else None
                except (Inconsistent, RefUndefined):
                    apps, nxt = [False], None
                if not all(apps):
                    r.fail("member-inapplicable", f"{label}: joint action #{k} {j} has a member that is not applicable in the "
                           f"step's pre-state {st.to_json()}", "applicable", str(apps), tags=t)
                    return False
                if nxt is None:
                    kind = interference_kind(w, members, st)
                    r.fail("interference", f"{label}: joint action #{k} {j} groups interfering actions in pre-state "
                           f"{st.to_json()} (some member order is not executable or the orders disagree; kind={kind})",
                           "non-interfering", str(j), tags=t + [kind])
                    return False
                if constraint:
                    sets = [set(a) for n, a in members]
                    if any(sets[i] & sets[j2] for i in range(len(sets)) for j2 in range(i + 1, len(sets))):
                        r.fail("concurrency-constraint", f"{label}: joint action #{k} {j} shares an object between members",
                               "disjoint arguments", str(j), tags=t)
                        return False
                st = nxt
            if not same_state(st, final):
                r.fail("final-state", f"{label}: joint plan {joint} ends in {st.to_json()}, the sequential plan in "
                       f"{final.to_json()}", final.to_json(), st.to_json(), tags=t)
                return False
            if multi:
                r.nontrivial = True
            r.outcome("joint-steps-%d-for-%d" % (len(joint), len(plan)))
            if layout == "bare" and len(plan) >= 2 and not check_reuse(r, w, plan, path, constraint, joint, t):
                return False
    return True


def check_reuse(r, w, plan, path, constraint, joint, t):
    """one converter per world, kept for the whole run; before each plan it converts the plan's tail for a problem of
    the same name whose initial state is the state after the plan's first action.  It must then convert the plan for
    the real problem exactly as a fresh converter does (that result was judged above)."""
    import re
    from pddl_plus_parser.multi_agent import PlanConverter
    from ..bridge import problem_text
    conv = w.__dict__.setdefault("_shared_converter", PlanConverter(w.D))
    pname = re.search(r"\(problem ([^)\s]+)\)", w.ptext).group(1)
    s0 = w.RP.state()
    mid = successor(w.S, w.S.actions[plan[0][0]], tuple(plan[0][1:]), s0, w.objs)
    decoy = parse_problem(problem_text(w.S.name, w.RP.objects, mid, name=pname), w.D)
    decoy_path = write_tmp("\n".join("(" + " ".join(s) + ")" for s in plan[1:]) + "\n", ".plan2")
    guard(lambda: conv.convert_plan(decoy, decoy_path, list(w.agents), constraint))
    res = guard(lambda: conv.convert_plan(parse_problem(w.ptext, w.D), path, list(w.agents), constraint))
    r.count("histories", 2)
    joint2 = res if isinstance(res, Raised) else [[[a.name] + list(a.parameters) for a in ja.actions] for ja in res]
    if joint2 != joint:
        r.fail("converter-reuse", f"[constraint={constraint}] plan {plan}: a converter that earlier converted {plan[1:]} for a "
               f"problem of the same name starting in {mid.to_json()} gives {joint2}; a fresh converter gives {joint}",
               joint, str(joint2), tags=t + ["reuse"])
        return False
    return True


def interference_kind(w, members, st):
    """Reference diagnosis of WHY the members interfere: 'numeric-write-write' if two members write the same fluent,
    'numeric-read-write' if a fluent written by one member is read (precondition, condition, right-hand side) by
    another, else 'discrete' (an atom written by one member is read or oppositely written by another)."""
    from ..refsem import mentioned, fired_groups, binding
    writes, reads = [], []
    for n, a in members:
        act = w.S.actions[n]
        groups = fired_groups(w.S, act, binding(act, a), st, w.objs)
        writes.append({k for g in groups for (k, _, _) in g.writes})
        _, fl = mentioned(w.S, act, a, w.objs)
        reads.append(set(fl))
    for i in range(len(members)):
        for j in range(len(members)):
            if i != j and writes[i] & writes[j]:
                return "numeric-write-write"
    for i in range(len(members)):
        for j in range(len(members)):
            if i != j and writes[i] & reads[j]:
                return "numeric-read-write"
    return "discrete"


def check_case(case):
    r = CaseResult()
    if case.get("kind") == "shipped":
        w, plan = shipped_world(*case["files"])
        for n in case["prefixes"]:
            sub = plan[:n]
            st = w.RP.state()
            ok = True
            for s_ in sub:
                if not _app(w.S, (s_[0], tuple(s_[1:])), st, w.objs):
                    ok = False
                    break
                st = successor(w.S, w.S.actions[s_[0]], tuple(s_[1:]), st, w.objs)
            if not ok:
                r.outcome("skip-shipped-plan-invalid-for-the-reference")
                continue
            r.seen("states", digest(st.key()))
            check_plan(r, w, [list(x) for x in sub], st, ["shipped", case["files"][0]])
            if len(r.fails) >= 6:
                break
        return r
    w = world(case["domain"], case["agents"])
    prefix = [list(s) for s in case["prefix"]]
    st = w.RP.state()
    for s in prefix:
        st = successor(w.S, w.S.actions[s[0]], tuple(s[1:]), st, w.objs)
    depth = max(0, case["length"] - len(prefix)) if len(prefix) >= 2 else 0
    tags = [case["domain"], f"agents{case['agents']}"]
    for tail, final in valid_extensions(w, st, depth):
        plan = prefix + tail
        r.seen("states", digest(final.key()))
        check_plan(r, w, plan, final, tags)
        if len(r.fails) >= 6:
            break
    return r


def _discrete_interference(case, fail):
    """KF-C15-1: interference that can only be seen by looking at what the members READ (atoms, or fluents read by a
    precondition / condition / right-hand side); two members WRITING the same fluent is detected by the library and
    stays a violation."""
    return fail["clause"] == "interference" and fail["tags"][-1] in ("discrete", "numeric-read-write")


MATCHERS = {"discrete_interference": _discrete_interference}
