"""C18 — renaming an action's parameters does not change what the action does.

Space: in-fragment programs with 1-3 parameters x every injective renaming from a menu (all fresh, every
permutation of the existing names, chains, partially overlapping, identity) x every call x every state.
Oracle: the renamed schema has the same number / order / types of parameters, named by the images,
and its applicability and successors equal those of an untouched parse of the same text
(implementation vs implementation) and the reference reading of the source.
"""
from itertools import permutations

from ..bridge import guard, Raised, parse_domain, observe_state, operator
from ..core import Prog, ref_applicable, ref_successor, UNDEF, ILL, same_state, show
from ..gens import vdom
from ..refsem import RefState
from ..runner import CaseResult, digest

ID = "C18"
RULE = ("programs: every precondition program with <= 2 literals, every one-level or / forall precondition, every "
        "effect program with <= 2 simple effects, one when, or one forall-when (quick alphabets; thorough: the whole quick "
        "corpus) with profiles (?x ?y), (?x - t2 ?y), (?x), plus a 3-parameter family, 4 programs over two-parameter fluents and 3 with parameters named ?z_0 / ?z_1 next to a quantifier over ?z; renamings: all fresh, every "
        "permutation of the existing names, chain into a fresh name, partial; x every type-correct call x every "
        "state of the relevant universe. non-trivial = a non-identity renaming of a program whose behaviour table is "
        "not constant")
ASSUMPTIONS = ["the renaming maps exactly the action's parameters (quantified variables and constants are not in the map)",
               "the untouched parse of the same text is the behavioural baseline; pv.refsem is the second oracle"]
CASE_TIMEOUT = 120

P3 = "?x - t1 ?y - t1 ?w - t1"
THREE = [
    ("(and (p ?x) (q ?y ?w) (not (= ?x ?w)))", "(and (not (p ?x)) (q ?w ?y) (increase (g ?w) 1))"),
    ("(and (or (p ?w) (q ?x ?y)) (= ?y ?w))", "(and (p ?w) (when (p ?x) (not (q ?x ?y))))"),
    ("(and (>= (g ?w) 1) (forall (?z - t1) (or (p ?z) (q ?z ?w))))",
     "(and (assign (g ?x) (g ?w)) (forall (?z - t1) (when (q ?z ?w) (not (q ?z ?w)))))"),
]


TWO_PARAM_FLUENTS = [  # function terms over two parameters (their name-keyed signature is what a renaming rewrites)
    ("(and (<= (h ?x ?y) 0.5))", "(and (increase (h ?x ?y) 1))"),
    ("(and (>= (h ?y ?x) 1) (p ?x))", "(and (decrease (h ?y ?x) 1) (increase (h ?x ?y) 1))"),
    ("(and)", "(and (when (< (h ?x ?y) (g ?y)) (assign (h ?x ?y) (g ?y))))"),
    ("(and (or (> (h ?x ?y) 0) (r)))", "(and (forall (?z - t1) (when (p ?z) (increase (h ?x ?z) 1))))"),
]


TWINS = [  # two literals / terms of one predicate and polarity that a permutation of the parameters maps onto one another
    ("(and (p ?x) (p ?y))", "(and (r))"), ("(and (not (p ?x)) (not (p ?y)))", "(and (r))"),
    ("(and (q ?x ?y) (q ?y ?x))", "(and (not (r)))"), ("(and (or (p ?x) (p ?y)))", "(and (r))"),
    ("(and (r) (or (not (p ?x)) (not (p ?y))))", "(and (not (r)))"),
    ("(and)", "(and (when (and (p ?x) (p ?y)) (r)))"), ("(and)", "(and (p ?x) (p ?y))"),
    ("(and)", "(and (not (q ?x ?y)) (not (q ?y ?x)))"),
    ("(and (>= (g ?x) 1) (>= (g ?y) 1))", "(and (increase (g ?x) 1) (increase (g ?y) 1))"),
    ("(and (forall (?z - t1) (or (q ?x ?z) (q ?y ?z))))", "(and (forall (?z - t1) (when (q ?z ?x) (q ?z ?y))))"),
]


AS_DECLARED = [
    ("(and (>= (g ?a) 1) (p ?a))", "(and (decrease (g ?a) 1) (increase (h ?a ?b) 1))"),
    ("(and (< (h ?a ?b) (g ?a)))", "(and (assign (h ?a ?b) (g ?a)) (when (p ?a) (increase (g ?a) (h ?a ?b))))"),
    ("(and (q ?a ?b) (or (p ?a) (>= (g ?a) 2)))", "(and (not (q ?a ?b)) (q ?b ?a) (decrease (g ?a) (g ?b)))"),
    ("(and (m ?a))", "(and (forall (?z - t1) (when (q ?a ?z) (increase (g ?a) 1))) (not (m ?a)))"),
]


SHADOW = [  # a quantified variable with the name of a parameter (the parameter is not visible inside), and next to it
    ("(and (p ?x) (forall (?y - t1) (and (not (q ?x ?y)))))", "(and (r))"),
    ("(and (forall (?y - t1) (or (p ?y) (q ?y ?x))) (not (p ?y)))", "(and (p ?y))"),
    ("(and (p ?y))", "(and (forall (?y - t1) (when (q ?x ?y) (not (q ?x ?y)))) (not (p ?y)))"),
    ("(and)", "(and (p ?y) (forall (?x - t2) (when (not (p ?x)) (q ?x ?y))))"),
]


REPEATED_TERM = [  # one fluent term twice in one expression
    ("(and (>= (* (g ?x) (g ?x)) (g ?y)))", "(and (assign (g ?x) (+ (g ?x) (g ?y))))"),
    ("(and)", "(and (when (> (+ (h ?x ?y) (h ?x ?y)) 1) (increase (g ?y) (* (g ?y) (g ?x)))))"),
]
NUMERAL_FIRST = [  # a numeral as the first operand of a comparison / arithmetic node, the renamed term second
    ("(and (<= 1 (g ?x)))", "(and (increase (f) (* 2 (g ?x))))"),
    ("(and (> 2 (+ (f) (g ?y))))", "(and (assign (g ?x) (- 10 (g ?y))))"),
    ("(and (or (r) (< 0.5 (h ?x ?y))))", "(and (when (<= 1 (g ?y)) (decrease (h ?x ?y) (/ 1 (g ?y)))))"),
]
CONSTANT_SECOND = [  # (in)equalities between a parameter and a domain constant, the constant written second / first
    ("(and (not (= ?x c)) (p ?y))", "(and (q ?x ?y))"), ("(and (or (= ?y c) (p ?x)))", "(and (r))"),
    ("(and (not (= c ?y)) (not (= ?x ?y)))", "(and (when (= ?x c) (p ?y)))"),
]
TWO_BOUND = [  # two quantified effects / conditions with differently named variables
    ("(and)", "(and (forall (?z - t1) (when (q ?x ?z) (p ?z))) (forall (?w - t1) (when (q ?w ?y) (not (q ?w ?y)))))"),
    ("(and (forall (?z - t1) (or (p ?z) (q ?z ?x))) (forall (?w - t2) (and (not (q ?y ?w)))))",
     "(and (forall (?w - t1) (when (p ?w) (q ?y ?w))) (forall (?z - t2) (when (not (p ?z)) (q ?x ?z))))"),
]


SUFFIXED = [
    ("?x - t1 ?z_0 - t1", "(and (forall (?z - t1) (or (q ?z ?z_0) (p ?x))))",
     "(and (forall (?z - t1) (when (q ?z ?z_0) (and (not (q ?z ?z_0)) (q ?x ?z)))))"),
    ("?x - t1 ?z_0 - t1", "(and (p ?z_0))", "(and (forall (?z - t1) (when (q ?x ?z) (q ?z_0 ?z))))"),
    ("?x - t1 ?z_0 - t1 ?z_1 - t1", "(and (forall (?z - t1) (or (q ?z ?z_0) (q ?z_1 ?z) (p ?x))))",
     "(and (forall (?z - t1) (when (q ?z_1 ?z) (q ?z_0 ?z))) (not (p ?x)))"),
]


def renamings(params):
    fresh = ["?u", "?v", "?k"]
    out = [("identity", {p: p for p in params}), ("fresh", {p: f for p, f in zip(params, fresh)})]
    for perm in permutations(params):
        if list(perm) != list(params):
            out.append(("perm", dict(zip(params, perm))))
    if len(params) >= 2:
        # chain: ?x -> ?y, ?y -> fresh   (new names overlap the old ones)
        chain = {params[0]: params[1], params[1]: "?u"}
        for p in params[2:]:
            chain[p] = p
        out.append(("chain", chain))
        out.append(("partial", {**{p: p for p in params}, params[-1]: "?u"}))
    if len(params) >= 3:
        out.append(("chain3", {params[0]: params[1], params[1]: params[2], params[2]: "?u"}))
    # new names written with upper-case letters (names are case-insensitive in PDDL; the API takes any string)
    out.append(("upper-case", {p: "?" + f.upper() for p, f in zip(params, ["uu", "vv", "kk"])}))
    # onto the name a quantifier of the corpus binds (?z): the bound variable must not capture the parameter
    out.append(("onto-bound-name", {**{p: p for p in params}, params[0]: "?z"}))
    if len(params) >= 2:
        out.append(("chain-through-bound-name", {params[0]: "?z", params[1]: params[0], **{p: p for p in params[2:]}}))
        if "?w" not in params and "?z" not in params:
            out.append(("onto-two-bound-names", {params[0]: "?z", params[1]: "?w", **{p: p for p in params[2:]}}))
            out.append(("onto-two-bound-names-crossed", {params[0]: "?w", params[1]: "?z", **{p: p for p in params[2:]}}))
    if len(params) >= 2 and "?z" not in params and "?z_0" not in params:
        # one parameter onto the bound name, another onto the name the displaced bound variable would be given
        out.append(("onto-bound-and-its-fresh-name", {params[0]: "?z", params[1]: "?z_0", **{p: p for p in params[2:]}}))
        out.append(("onto-bound-and-its-fresh-name-crossed", {params[0]: "?z_0", params[1]: "?z", **{p: p for p in params[2:]}}))
        out.append(("onto-two-fresh-names", {params[0]: "?z", params[1]: "?z_1", **{p: p for p in params[2:]}}))
    # the same maps with their entries listed in the opposite order (a map is a map, however it was built)
    for kind, ren in list(out):
        if len(ren) >= 2 and kind in ("fresh", "perm", "chain"):
            out.append((kind + "-listed-backwards", dict(reversed(list(ren.items())))))
    return out


def cases(tier):
    progs = []
    for gen in (vdom.pre_programs, vdom.eff_programs):
        for p in gen("quick"):
            if p["profile"] not in ("xy", "x2y", "x"):
                continue
            t = p["tags"]
            simple = t[0] in ("empty", "and1", "and2", "e1", "e2") or "forall-simple" in t or "when-bare" in t \
                or (t[0] == "forall" and "(and" not in p["eff"][5:] and p["pre"] == "(and)" and "pre" not in t) \
                or (t[0] == "or")
            if tier == "quick" and {"dup", "nested-first", "two-forall"} & set(t):
                continue  # no new renaming structure; kept for the thorough tier
            if tier != "quick" or (simple and "pre" not in t):
                progs.append(p)
    for pre, eff in TWO_PARAM_FLUENTS:
        for prof in ("xy", "x2y"):
            q = vdom.program(prof, pre, eff, ["fluent2"])
            progs.append(q)
    for pre, eff in TWINS:
        progs.append(vdom.program("xy", pre, eff, ["twins"]))
    for pre, eff in SHADOW:
        progs.append(vdom.program("xy", pre, eff, ["shadow-param"]))
    for pre, eff in REPEATED_TERM:
        progs.append(vdom.program("xy", pre, eff, ["repeated-term"]))
    for pre, eff in CONSTANT_SECOND:
        progs.append(vdom.program("xy", pre, eff, ["constant-second"]))
    for pre, eff in NUMERAL_FIRST + TWO_BOUND:
        progs.append(vdom.program("xy", pre, eff, ["numeral-first" if (pre, eff) in NUMERAL_FIRST else "two-bound"]))
    # parameters named like the variables of the :predicates / :functions declarations (?a ?b): terms spelled exactly as
    # declared, several times in one action
    for pre, eff in AS_DECLARED:
        text = (f"(define (domain v)\n{vdom.header('typed')}\n(:action a\n :parameters (?a - t1 ?b - t1)\n"
                f" :precondition {pre}\n :effect {eff}))\n")
        progs.append({"domain": text, "objects": dict(vdom.OBJECTS), "profile": "ab", "pre": pre, "eff": eff,
                      "tags": ["as-declared"], "header": "typed"})
    # a parameter named like the name a displaced quantified variable would be given (?z_0, then ?z_1), used inside the
    # scope of the quantifier over ?z; the renamings 'onto-bound-name' keep it and move another parameter onto ?z
    for params, pre, eff in SUFFIXED:
        text = (f"(define (domain v)\n{vdom.header('typed')}\n(:action a\n :parameters ({params})\n"
                f" :precondition {pre}\n :effect {eff}))\n")
        progs.append({"domain": text, "objects": dict(vdom.OBJECTS), "profile": "suffixed", "pre": pre, "eff": eff,
                      "tags": ["suffixed-names"], "header": "typed"})
    for pre, eff in THREE:
        text = (f"(define (domain v)\n{vdom.header('typed')}\n(:action a\n :parameters ({P3})\n"
                f" :precondition {pre}\n :effect {eff}))\n")
        progs.append({"domain": text, "objects": dict(vdom.OBJECTS), "profile": "xyw", "pre": pre, "eff": eff,
                      "tags": ["three"], "header": "typed"})
    seen = set()
    for p in progs:
        if p["domain"] in seen:
            continue
        seen.add(p["domain"])
        c = dict(p)
        c["max_states"] = 32 if tier == "quick" else 128
        yield c


def observe(x):
    if isinstance(x, Raised):
        return x
    try:
        return observe_state(x)
    except Exception as e:
        return Raised(e)


def check_case(case):
    r = CaseResult()
    pg = Prog(case)
    if not pg.parsed:
        r.skipped = "parse-raised (C01's business)"
        return r
    S = pg.S
    act = S.actions["a"]
    params = [p for p, _ in act.params]
    types = [t for _, t in act.params]
    # behaviour table of the untouched parse and of the reference, once
    table = []
    varied = set()
    for args in S.calls(act, pg.objs):
        states, _ = vdom.universe(S, act, args, pg.objs, max_states=case.get("max_states", 32))
        for st in states:
            s_app = ref_applicable(S, "a", args, st, pg.objs)
            if s_app in (UNDEF, ILL):
                continue
            s_succ = ref_successor(S, "a", args, st, pg.objs) if s_app is True else None
            if s_app is True and not isinstance(s_succ, RefState):
                continue
            ls, pr = pg.lib_state(st)
            b_app = guard(lambda: pg.op("a", args, pr).is_applicable(ls))
            b_succ = observe(guard(lambda: pg.op("a", args, pr).apply(ls))) if b_app is True else None
            table.append((args, st, s_app, s_succ, b_app, b_succ))
            varied.add(s_app)
            if s_succ is not None and s_succ != st:
                varied.add("changes")
    for kind, ren in renamings(params):
        D2 = parse_domain(pg.text)
        a2 = D2.actions["a"]
        res = guard(a2.change_signature, dict(ren))
        r.count("renamings")
        r.seen("states", digest((case["domain"], tuple(sorted(ren.items())))))
        if isinstance(res, Raised):
            r.outcome("rename-raised")
            r.fail("rename-raised", f"change_signature({ren}) raised {res}; pre={case['pre']} eff={case['eff']}",
                   "renamed", res.to_json(), tags=case["tags"] + [kind])
            continue
        sig = [(k, t.name) for k, t in a2.signature.items()]
        want_sig = [(ren[p], t) for p, t in zip(params, types)]
        if sig != want_sig:
            r.outcome("signature-differs")
            r.fail("signature", f"change_signature({ren}): signature {sig}, expected {want_sig}", want_sig, sig,
                   tags=case["tags"] + [kind])
            continue
        bad = False
        for args, st, s_app, s_succ, b_app, b_succ in table:
            ls, pr = pg.lib_state(st, D2)
            got = guard(lambda: operator(D2, "a", args, pr.objects).is_applicable(ls))
            r.count("transitions")
            ok = got is b_app or (isinstance(got, Raised) and isinstance(b_app, Raised))
            got2 = None
            if ok and b_app is True:
                got2 = observe(guard(lambda: operator(D2, "a", args, pr.objects).apply(ls)))
                r.count("transitions")
                ok = (isinstance(got2, RefState) and isinstance(b_succ, RefState) and same_state(got2, b_succ)) or \
                     (isinstance(got2, Raised) and isinstance(b_succ, Raised))
            if not ok:
                r.outcome("behaviour-differs")
                r.fail("behaviour", f"after change_signature({ren}) call (a {' '.join(args)}) in {st.to_json()}: "
                       f"applicable={show(got)} successor={show(got2)}; untouched parse: applicable={show(b_app)} "
                       f"successor={show(b_succ)}; reference: {s_app} / {show(s_succ)}; pre={case['pre']} eff={case['eff']}",
                       show(b_succ) if b_succ is not None else show(b_app), show(got2) if got2 is not None else show(got),
                       tags=case["tags"] + [kind])
                bad = True
                break
        if not bad:
            r.outcome("agree")
        if len(r.fails) >= 3:
            break
    r.nontrivial = len(varied) >= 2
    return r
