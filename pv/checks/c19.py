"""C19 — planner logs yield exactly the plan's steps.

Space: every plan from a 145-plan family (10 step counts around the digit-width boundaries x 16 rotations of a
16-entry (name, arity) alphabet) rendered as a Metric-FF log under every header x every trailer, and inside each
such unit every layout with <= D deviations from the canonical Metric-FF layout; every no-plan log of a small
product family; every plan as an ENHSP one-action-per-line file.
Oracle: the generating plan is the specification: get_solving_status -> ("ok", the steps lower-cased, in order,
argument order kept, one "(...)\n" item per step); parse_plan writes those lines; no plan -> no-solution /
timeout, [] and no action reaches the output file; ENHSP -> the lines lower-cased, order kept.
"""
import os
from itertools import combinations, product
from pathlib import Path

from ..bridge import guard, Raised, write_tmp, scratch_dir
from ..runner import CaseResult

from pddl_plus_parser.exporters.ff_output_parser import MetricFFParser  # noqa: E402
from pddl_plus_parser.exporters.enhsp_output_parser import ENHSPParser  # noqa: E402

ID = "C19"
TITLE = "planner logs yield exactly the plan's steps"

COUNTS = [0, 1, 2, 9, 10, 11, 99, 100, 101, 150]
NAMES = ["A", "MOVE-UP", "load_2", "x1", "start-waiting", "FOUND-PLAN"]  # the last two contain words planners print
ARGS = ["A1", "loc-2", "i_3", "7", "WAITING_ROOM1", "step-0"]
NCOMBO = len(NAMES) * 4  # (name, arity 0..3)
BOUNDARY = [0, 1, 9, 10, 99, 100]  # plus the last step

MARKER = "ff: found legal plan as follows"
NO_SOLUTION_MARKERS = {
    "unsolvable": "best first search space empty! problem proven unsolvable.",
    "false-goal": "ff: goal can be simplified to FALSE. No plan will solve it",
    "increasers": "warning: all increasers applied yet goal not fulfilled",
}

BANNER = ("\nff: parsing domain file\ndomain 'DEPOT' defined\n ... done.\nff: parsing problem file\n"
          "problem 'DEPOTPROB7512' defined\n ... done.\n\n\n"
          "warning: numeric precondition. turning cost-minimizing relaxed plans OFF.\n\n"
          "ff: search configuration is Enforced Hill-Climbing, then A*epsilon with weight 5.\n"
          "Metric is ((1.00*[RF0](FUEL-COST)) - () + 0.00)\n"
          "COST MINIMIZATION DONE (WITHOUT cost-minimizing relaxed plans).\n\n"
          "Cueing down from goal distance:   18 into depth [1][2]\n"
          "                                  16            [1][2]\n"
          "                                   1            [1]\n"
          "                                   0            \n\n")
# header name -> (text, token lists a parser would produce if it mistook the header's "d: word" lines for steps)
HEADERS = {
    "none": ("", []),
    "banner": (BANNER, []),
    # lines that look like "<digit>: <words>" before the plan
    "digit-colon": (BANNER + "task 3: x\nrun 10: started ok\n    4: restart\n\n",
                    [["x"], ["started", "ok"], ["restart"]]),
    # a digit followed by a colon, but not followed by blank + word
    "colon-tight": (BANNER + "clock 12:30\nweight 5:(1)\nstage 4: [1][2]\n\n", []),
    # characters outside ASCII before the plan (a path, a dash, a check mark): byte and character offsets differ from here on
    "non-ascii": (BANNER + "problem file: /home/jos\u00e9/\u00fcbung/\u03c0-3.pddl \u2014 parsed \u2713\n\n", []),
}
TIME = ("time spent:    0.00 seconds instantiating 12 easy, 0 hard action templates\n"
        "               0.00 seconds reachability analysis, yielding 9 facts and 12 actions\n"
        "               0.00 seconds searching, evaluating 68 states, to a max depth of 3\n"
        "               0.00 seconds total time\n\n")
# trailer name -> text placed directly after the newline that ends the last step line
TRAILERS = {
    "time": "\n" + TIME,                          # canonical: blank line + "time spent: ..."
    "cost-time": "plan cost: 54.000000\n\n" + TIME,  # Metric-FF 2.1 layout
    "pad-time": "     \n\n" + TIME,                # FF print_plan(): "\n     " after every step
    "word": "DONE\n",                            # a line of only word characters right after the plan
    "blank-word": "\nDONE\n",                    # the same after one blank line
    "none": "",                                  # the log ends with the last step line
    "crlf": "\n" + TIME,                          # canonical, every line end CRLF
    "unterminated": None,                        # the log ends with the last step line, no final newline
}

# global layout parameters: name -> (canonical, alternatives)
GLOBAL_SITES = [
    ("gap", 0, [1, 2]),          # blank lines between the marker line and the first step line
    ("stepblanks", 1, [2, 3]),   # blanks after the first line's "step"
    ("indent", None, [0, 8]),    # indentation of the continuation lines (None: as wide as "step" + blanks)
    ("align", "r", ["l"]),       # step number right-aligned to width 4 / left-aligned
    ("colon", 1, [2, 3]),        # blanks after "<n>:"
    ("argsep", 1, [2, 3]),       # blanks between the name and the arguments
]
LOCAL_KINDS = ["align", "colon", "argsep"]  # the same parameter changed on one boundary line only

RULE = ("plans: step counts {0,1,2,9,10,11,99,100,101,150} x 24 rotations of the (name, arity) alphabet "
        "{A, MOVE-UP, load_2, x1, start-waiting, FOUND-PLAN} x {0..3 arguments from A1, loc-2, i_3, 7, WAITING_ROOM1, step-0} (step i carries combination (i+rot) mod 24, "
        "so every combination occurs at every position, in particular at 9/10 and 99/100); one case = (plan, header, "
        "trailer) with header in {none, Metric-FF banner, banner + 'task 3: x' / 'run 10: started ok' / '    4: restart' lines, banner + a line with characters outside ASCII, banner + "
        "'clock 12:30' / 'weight 5:(1)' lines} and trailer in {blank + time spent, plan cost + time spent, blank-padded "
        "line + time spent, word-only line, blank + word-only line, nothing, CRLF everywhere, unterminated last line}; "
        "inside a case every layout with <= D changed sites among 6 global ones (blank lines after the marker 0/1/2, "
        "blanks after 'step' 1/2/3, continuation indentation matching/0/8, number right-aligned to 4 / left-aligned, blanks "
        "after the colon 1/2/3, blanks between tokens 1/2/3), plus the same three line parameters changed on one boundary "
        "line only (steps 0, 1, 9, 10, 99, 100, last) alone (quick) or together with <= 1 global change (thorough); "
        "D = 2 (quick) / 3 (thorough). no-plan logs: {3 no-solution markers, none} x 4 headers x stray 'd: word' lines "
        "{none, before, after the marker} x {LF, CRLF} x {time trailer, none, unterminated}. ENHSP: every plan, one "
        "'(NAME ARGS)' per line, x {as written, upper, lower} x {final newline, none}. Both entry points per log "
        "(get_solving_status and parse_plan + file read back). non-trivial = a plan with >= 2 steps")
ASSUMPTIONS = [
    "blanks are spaces; tabs, lone CR, non-UTF-8 bytes and Unicode blanks are outside the alphabet",
    "the marker line is exactly 'ff: found legal plan as follows'; a log holds at most one plan",
    "only name / argument tokens, their order, the '(...)\\n' envelope (one item, one line) and the item count are "
    "demanded; the number of blanks between tokens inside an item is not",
    "for a zero-step plan ('found legal plan' with no steps) the expected result is ('ok', []); whether parse_plan then "
    "writes an empty file or none is not demanded; for a no-plan log an absent or empty output file is accepted",
    "a marker-bearing no-plan log is expected to be 'no-solution', a marker-free one 'timeout' (the parser's documented "
    "classification)",
    "ENHSP: blank lines inside the plan and CRLF are outside the alphabet; the last item's line terminator is not "
    "demanded when the file has no final newline",
]
CASE_TIMEOUT = 120
MAX_FAILS = 3

_FF = MetricFFParser()
_ENHSP = ENHSPParser()


# ------------------------------------------------------------------------------------------------ plans

def plan(n, rot):
    """n steps; step i is [name, arg...] with (name, arity) = combination (i + rot) mod 16."""
    steps = []
    for i in range(n):
        c = (i + rot) % NCOMBO
        name, arity = NAMES[c % len(NAMES)], c // len(NAMES)
        steps.append([name] + [ARGS[(c + i // NCOMBO + j) % len(ARGS)] for j in range(arity)])
    return steps


def plans():
    for n in COUNTS:
        for rot in (range(NCOMBO) if n else [0]):
            yield n, rot


def expected(steps):
    return [[t.lower() for t in s] for s in steps]


# ------------------------------------------------------------------------------------------------ Metric-FF rendering

def canonical_opts():
    o = {name: canon for name, canon, _ in GLOBAL_SITES}
    o["local"] = None
    return o


def layouts(n, steps, dev, local_with):
    """All option sets with <= dev changed global sites; plus one line-local change on a boundary line combined
    with <= local_with changed global sites."""
    base = canonical_opts()
    globals_ = []
    for d in range(0, dev + 1):
        for combo in combinations(range(len(GLOBAL_SITES)), d):
            for choice in product(*[GLOBAL_SITES[i][2] for i in combo]):
                o = dict(base)
                for i, v in zip(combo, choice):
                    o[GLOBAL_SITES[i][0]] = v
                globals_.append((d, o))
    for d, o in globals_:
        yield o, d
    focus = sorted({f for f in BOUNDARY + [n - 1] if 0 <= f < n})
    for d, o in globals_:
        if d > local_with:
            continue
        for f in focus:
            for kind in LOCAL_KINDS:
                if kind == "argsep" and len(steps[f]) < 2:
                    continue
                o2 = dict(o)
                o2["local"] = [f, kind]
                yield o2, d + 1


def render_ff(steps, header, trailer, o):
    n = len(steps)
    ind = " " * (4 + o["stepblanks"] if o["indent"] is None else o["indent"])
    sep = " " * o["argsep"]
    col = ":" + " " * o["colon"]
    right = o["align"] == "r"
    lines = []
    for i, toks in enumerate(steps):
        num = f"{i:>4}" if right else str(i)
        lines.append(ind + num + col + sep.join(toks))
    if o["local"] is not None and n:
        f, kind = o["local"]
        r, c, s = right, o["colon"], o["argsep"]
        if kind == "align":
            r = not r
        elif kind == "colon":
            c = 3 if c != 3 else 1
        else:
            s = 3 if s != 3 else 1
        lines[f] = ind + (f"{f:>4}" if r else str(f)) + ":" + " " * c + (" " * s).join(steps[f])
    if n:
        lines[0] = "step" + " " * o["stepblanks"] + lines[0][len(ind):]
    text = HEADERS[header][0] + MARKER + "\n" + "\n" * o["gap"] + "".join(l + "\n" for l in lines)
    tr = TRAILERS[trailer]
    if tr is None:
        text = text[:-1]
    else:
        text += tr
    if trailer == "crlf":
        text = text.replace("\n", "\r\n")
    return text


# ------------------------------------------------------------------------------------------------ observation

_ITEM_CACHE = {}


def item_tokens(item):
    """One returned / written item -> (tokens, envelope is exactly '(' one line ')' newline).  Memoised; the
    token lists are shared and never mutated."""
    if not isinstance(item, str):
        return [repr(item)], False
    hit = _ITEM_CACHE.get(item)
    if hit is None:
        if len(_ITEM_CACHE) > 20000:
            _ITEM_CACHE.clear()
        hit = _ITEM_CACHE[item] = _item_tokens(item)
    return hit


def _item_tokens(item):
    env = (len(item) >= 3 and item[0] == "(" and item.endswith(")\n") and "\n" not in item[:-1]
           and "(" not in item[1:] and ")" not in item[:-2])
    inner = item.strip()
    if inner.startswith("("):
        inner = inner[1:]
    if inner.endswith(")"):
        inner = inner[:-1]
    return inner.split(), env


def _is_subsequence(xs, ys):
    it = iter(ys)
    return all(any(x == y for y in it) for x in xs)


def _tail_tag(obs, exp):
    if obs == exp:
        return []
    if exp and len(obs) == len(exp) and obs[:-1] == exp[:-1] and obs[-1][:len(exp[-1])] == exp[-1]:
        return ["trailer-glued-to-last-step"]
    if exp and obs == exp[:-1]:
        return ["last-step-missing"]
    return None


def classify(obs, exp, junk):
    """Tags describing how the observed token lists differ from the expected ones (obs != exp)."""
    for p in range(min(len(junk), len(obs)), -1, -1):
        if p and not _is_subsequence(obs[:p], junk):
            continue
        t = _tail_tag(obs[p:], exp)
        if t is not None:
            return (["header-line-as-step"] if p else []) + t
    return ["step-count" if len(obs) != len(exp) else "step-content"]


def brief(text, head=100, tail=140):
    if len(text) <= head + tail + 20:
        return repr(text)
    return repr(text[:head]) + f" ...[{len(text) - head - tail} chars]... " + repr(text[-tail:])


def around(lists, exp):
    """A short window of a long list around the first difference."""
    k = 0
    while k < len(lists) and k < len(exp) and lists[k] == exp[k]:
        k += 1
    lo = max(0, k - 1)
    return {"first_difference_at": k, "length": len(lists), "window": lists[lo:k + 3]}


class Recorder:
    """At most MAX_FAILS failures per case, at most one per (clause, tags)."""

    def __init__(self, r):
        self.r, self.keys = r, set()

    def fail(self, clause, detail, exp, obs, tags):
        key = (clause, tuple(tags))
        if key in self.keys or len(self.r.fails) >= MAX_FAILS:
            return
        self.keys.add(key)
        self.r.fail(clause, detail, exp, obs, tags=list(tags))


def _out_path():
    return Path(scratch_dir()) / f"c19_{os.getpid()}.plan"


def observe_ff(text):
    """-> (get_solving_status result | Raised, parse_plan Raised | None, output file content | None)."""
    log = write_tmp(text, ".log")
    got = guard(_FF.get_solving_status, log)
    out = _out_path()
    if out.exists():
        out.unlink()
    res = guard(_FF.parse_plan, log, out)
    content = None
    if out.exists():
        with open(out, "rt", newline="") as fh:
            content = fh.read()
        out.unlink()
    return got, (res if isinstance(res, Raised) else None), content


def file_items(content):
    return content.splitlines(keepends=True)


# ------------------------------------------------------------------------------------------------ cases

def cases(tier):
    dev = 2 if tier == "quick" else 3
    for kind in list(NO_SOLUTION_MARKERS) + ["timeout"]:
        for header in HEADERS:
            yield {"family": "noplan", "kind": kind, "header": header, "tier": tier}
    for n, rot in plans():
        yield {"family": "enhsp", "n": n, "rot": rot, "tier": tier}
    for n, rot in plans():
        for header in HEADERS:
            for trailer in TRAILERS:
                yield {"family": "ff", "n": n, "rot": rot, "header": header, "trailer": trailer, "dev": dev,
                       "tier": tier}


def check_case(case):
    fam = case["family"]
    if fam == "ff":
        return check_ff(case)
    if fam == "noplan":
        return check_noplan(case)
    return check_enhsp(case)


def check_ff(case):
    r = CaseResult()
    rec = Recorder(r)
    n, header, trailer = case["n"], case["header"], case["trailer"]
    steps = plan(n, case["rot"])
    exp = expected(steps)
    junk = HEADERS[header][1]
    r.nontrivial = n >= 2
    quick = case.get("tier", "quick") == "quick"
    seen = set()
    for o, d in layouts(n, steps, case["dev"], 0 if quick else 1):
        text = render_ff(steps, header, trailer, o)
        if text in seen:
            continue
        seen.add(text)
        r.count("states")
        r.count(f"layouts_with_{d}_deviations")
        got, file_raised, content = observe_ff(text)
        r.count("transitions", 2)
        where = f"layout={o} log={brief(text)}"
        tags0 = [header, trailer]

        # --- get_solving_status
        obs = None
        returned_ok = False
        if isinstance(got, Raised):
            r.outcome("plan:status-raised")
            rec.fail("raised", f"get_solving_status raised {got}; {where}", ["ok", exp[:3]], got.to_json(),
                     tags0 + ["get_solving_status"])
        elif not (isinstance(got, tuple) and len(got) == 2 and isinstance(got[1], list)):
            r.outcome("plan:bad-shape")
            rec.fail("shape", f"get_solving_status returned {got!r:.200}; {where}", "(status, list)", repr(got)[:200],
                     tags0)
        else:
            status, items = got
            if status != "ok":
                r.outcome(f"plan:status-{status}")
                rec.fail("status", f"a log holding a {n}-step plan is classified {status!r}; {where}", "ok", status,
                         tags0)
            parsed = [item_tokens(it) for it in items]
            obs = [p[0] for p in parsed]
            if obs != exp:
                t = classify(obs, exp, junk)
                r.outcome("plan:steps-" + "+".join(t))
                rec.fail("steps", f"{n}-step plan: returned steps differ ({', '.join(t)}); written plan file: "
                         f"{'none' if content is None else brief(content, 60, 80)}; {where}",
                         around(exp, obs), around(obs, exp), t + tags0)
            elif not all(p[1] for p in parsed):
                bad = next(it for it, p in zip(items, parsed) if not p[1])
                r.outcome("plan:envelope")
                rec.fail("envelope", f"item {bad!r} is not '(' one line ')' newline; {where}", "(name args)\\n", bad,
                         tags0)
            elif status == "ok":
                r.outcome("plan:ok")
                returned_ok = True

        # --- parse_plan + file read back
        if file_raised is not None:
            r.outcome("plan-file:raised")
            rec.fail("raised", f"parse_plan raised {file_raised}; {where}", "file written", file_raised.to_json(),
                     tags0 + ["parse_plan"])
        elif content is None:
            if n == 0:
                r.outcome("plan-file:zero-steps-no-file")
            elif obs == []:
                # nothing returned, nothing written: one failure, recorded above
                r.outcome("plan-file:same-as-returned:no-file")
            else:
                r.outcome("plan-file:missing")
                rec.fail("plan-file", f"{n}-step plan: parse_plan wrote no file; {where}", around(exp, []), None,
                         ["no-file"] + tags0)
        elif returned_ok and content == "".join(got[1]):
            r.outcome("plan-file:ok")  # exactly the returned items, each already checked to be one line
        else:
            fitems = file_items(content)
            fparsed = [item_tokens(it) for it in fitems]
            fobs = [p[0] for p in fparsed]
            if fobs != exp:
                same = isinstance(got, tuple) and len(got) == 2 and isinstance(got[1], list) and \
                    all(isinstance(x, str) for x in got[1]) and content == "".join(got[1])
                if same and obs is not None:
                    # the file holds exactly the (wrong) returned items: one failure, recorded above
                    r.outcome("plan-file:same-as-returned:" + "+".join(classify(obs, exp, junk)))
                else:
                    t = ["file-differs-from-returned"] + classify(fobs, exp, junk)
                    r.outcome("plan-file:" + "+".join(t))
                    rec.fail("plan-file", f"{n}-step plan: written plan file differs ({', '.join(t)}); "
                             f"file={brief(content)}; {where}", around(exp, fobs), around(fobs, exp), t + tags0)
            elif not all(p[1] for p in fparsed):
                bad = next(it for it, p in zip(fitems, fparsed) if not p[1])
                r.outcome("plan-file:envelope")
                rec.fail("plan-file-envelope", f"file line {bad!r} is not '(' one line ')' newline; {where}",
                         "(name args)\\n", bad, tags0)
            else:
                r.outcome("plan-file:ok")
    return r


# ------------------------------------------------------------------------------------------------ no-plan logs

STRAY = "task 3: x\nrun 10: started ok\n    4: restart\n"
SEARCH = ("Cueing down from goal distance:    7 into depth [1]\n"
          "                                   6            [1][2][3]\n\n"
          "Enforced Hill-climbing failed !\nswitching to Best-first Search now.\n\n"
          "advancing to distance:    7\n                          6\n")


def noplan_logs(kind, header):
    marker = NO_SOLUTION_MARKERS.get(kind)
    for stray in ("none", "before", "after"):
        for end in ("time", "none", "unterminated"):
            for crlf in (False, True):
                body = HEADERS[header][0] + SEARCH
                if stray == "before":
                    body += STRAY
                if marker is not None:
                    body += "\n" + marker + "\n"
                if stray == "after":
                    body += "\n" + STRAY
                if end == "time":
                    body += "\n" + TIME
                elif end == "unterminated":
                    body = body[:-1]
                if crlf:
                    body = body.replace("\n", "\r\n")
                has_stray = stray != "none" or bool(HEADERS[header][1])
                yield body, {"stray": stray, "end": end, "crlf": crlf}, has_stray


def check_noplan(case):
    r = CaseResult()
    rec = Recorder(r)
    kind, header = case["kind"], case["header"]
    want = "timeout" if kind == "timeout" else "no-solution"
    seen = set()
    for text, o, has_stray in noplan_logs(kind, header):
        if text in seen:
            continue
        seen.add(text)
        r.count("states")
        got, file_raised, content = observe_ff(text)
        r.count("transitions", 2)
        where = f"variant={o} log={brief(text, 60, 200)}"
        tags0 = [kind, header] + (["stray-digit-colon-lines"] if has_stray else [])
        if isinstance(got, Raised):
            r.outcome("noplan:status-raised")
            rec.fail("raised", f"get_solving_status raised {got}; {where}", [want, []], got.to_json(),
                     tags0 + ["get_solving_status"])
        elif not (isinstance(got, tuple) and len(got) == 2):
            r.outcome("noplan:bad-shape")
            rec.fail("shape", f"get_solving_status returned {got!r:.200}; {where}", [want, []], repr(got)[:200], tags0)
        else:
            status, items = got
            if status not in ("no-solution", "timeout"):
                r.outcome(f"noplan:status-{status}")
                rec.fail("noplan-status", f"a log without a plan is classified {status!r}; {where}",
                         "no-solution or timeout", status, tags0)
            elif status != want:
                r.outcome(f"noplan:{want}-classified-{status}")
                rec.fail("noplan-classification", f"a {kind} log is classified {status!r}; {where}", want, status,
                         tags0)
            else:
                r.outcome(f"noplan:{status}")
            if items != []:
                r.outcome("noplan:actions-returned")
                rec.fail("noplan-actions", f"a log without a plan yields actions {items!r:.200}; {where}", [],
                         repr(items)[:300], tags0)
        if file_raised is not None:
            r.outcome("noplan-file:raised")
            rec.fail("raised", f"parse_plan raised {file_raised}; {where}", "no file", file_raised.to_json(),
                     tags0 + ["parse_plan"])
        elif content:
            r.outcome("noplan-file:actions-written")
            rec.fail("noplan-file", f"parse_plan wrote actions {content!r:.200} for a log without a plan; {where}",
                     None, content[:300], tags0)
        else:
            r.outcome("noplan-file:none" if content is None else "noplan-file:empty")
    return r


# ------------------------------------------------------------------------------------------------ ENHSP

CASEFN = {"as-written": lambda s: s, "upper": str.upper, "lower": str.lower}
# per-line casing for ENHSP files: (token, line index) -> token
LINE_CASEFN = {"as-written": lambda s, i: s, "upper": lambda s, i: s.upper(), "lower": lambda s, i: s.lower(),
               "first-line-lower-rest-upper": lambda s, i: s.lower() if i == 0 else s.upper(),
               "odd-lines-upper": lambda s, i: s.upper() if i % 2 else s.lower()}
ENHSP_LAYOUTS = [("flush", "", ""), ("indented", "  ", ""), ("trailing-blanks", "", "  "), ("both", " ", " \t")]


def check_enhsp(case):
    r = CaseResult()
    rec = Recorder(r)
    n = case["n"]
    steps = plan(n, case["rot"])
    exp = expected(steps)
    r.nontrivial = n >= 2
    seen = set()
    for cname, fn, final_nl, (lname, lead, trail) in [(c, f, nl, lay) for c, f in LINE_CASEFN.items() for nl in (True, False)
                                                      for lay in ENHSP_LAYOUTS]:
        if lname != "flush" and cname not in ("as-written", "upper"):
            continue
        if True:
            text = "\n".join(lead + "(" + " ".join(fn(t, i) for t in s) + ")" + trail for i, s in enumerate(steps))
            if final_nl and n:
                text += "\n"
            if text in seen:
                continue
            seen.add(text)
            r.count("states")
            where = f"case={cname} layout={lname} final_newline={final_nl} file={brief(text)}"
            tags0 = ["enhsp", cname, lname, "final-newline" if final_nl else "no-final-newline"]

            p = write_tmp(text, ".enhsp")
            got = guard(ENHSPParser.parse_plan_content, p)
            r.count("transitions")
            if isinstance(got, Raised):
                r.outcome("enhsp:raised")
                rec.fail("raised", f"parse_plan_content raised {got}; {where}", exp[:3], got.to_json(),
                         tags0 + ["parse_plan_content"])
            else:
                obs = [item_tokens(it)[0] for it in got] if isinstance(got, list) else None
                if obs != exp:
                    r.outcome("enhsp:steps-wrong")
                    rec.fail("enhsp-steps", f"{n}-step plan: returned lines differ; {where}", around(exp, obs or []),
                             around(obs, exp) if obs is not None else repr(got)[:200], tags0)
                elif not all(it.strip() == it.strip().lower() and it.strip().startswith("(")
                             and it.strip().endswith(")") for it in got):
                    r.outcome("enhsp:envelope")
                    rec.fail("enhsp-envelope", f"an item is not a lower-cased '(...)' line: {got[:3]!r}; {where}",
                             "(name args)", got[:3], tags0)
                else:
                    r.outcome("enhsp:ok")

            p = write_tmp(text, ".enhsp")
            res = guard(_ENHSP.parse_plan, p)
            r.count("transitions")
            if isinstance(res, Raised):
                r.outcome("enhsp-file:raised")
                rec.fail("raised", f"ENHSP parse_plan raised {res}; {where}", "file rewritten", res.to_json(),
                         tags0 + ["parse_plan"])
                continue
            with open(p, "rt", newline="") as fh:
                content = fh.read()
            fobs = [item_tokens(it)[0] for it in file_items(content)]
            if fobs != exp:
                r.outcome("enhsp-file:wrong")
                rec.fail("enhsp-file", f"{n}-step plan: rewritten file differs: {brief(content)}; {where}",
                         around(exp, fobs), around(fobs, exp), tags0)
            elif content != content.lower():
                r.outcome("enhsp-file:not-lowercase")
                rec.fail("enhsp-file", f"rewritten file is not lower-cased: {brief(content)}; {where}",
                         content.lower()[:200], content[:200], tags0)
            else:
                r.outcome("enhsp-file:ok")
    return r


# ------------------------------------------------------------------------------------------------ known-finding matchers

DEFECT_TAGS = ["header-line-as-step", "trailer-glued-to-last-step", "last-step-missing", "no-file", "step-count",
               "step-content", "file-differs-from-returned"]


def _defects(fail):
    return {t for t in fail.get("tags", []) if t in DEFECT_TAGS}


def _consistent(case, fail):
    """Every defect tag of the failure is one the case's header / trailer explains; nothing else is wrong."""
    d = _defects(fail)
    if not d or case.get("family") != "ff" or fail.get("clause") not in ("steps", "plan-file"):
        return False
    allowed = set()
    if case["header"] == "digit-colon":
        allowed.add("header-line-as-step")
    if case["trailer"] in ("word", "blank-word"):
        allowed.add("trailer-glued-to-last-step")
    if case["trailer"] == "unterminated":
        allowed.add("last-step-missing")
        if case["n"] == 1:
            allowed.add("no-file")
    return d <= allowed


MATCHERS = {
    # exactly one defect at work
    "trailer_glued": lambda c, f: _consistent(c, f) and _defects(f) == {"trailer-glued-to-last-step"},
    "header_line_as_step": lambda c, f: _consistent(c, f) and _defects(f) == {"header-line-as-step"},
    "last_step_missing": lambda c, f: _consistent(c, f) and _defects(f) <= {"last-step-missing", "no-file"},
    # any combination of the three regex-layout defects, each explained by the case's header / trailer
    "regex_layout": _consistent,
    "noplan_file_written": lambda c, f: f.get("clause") == "noplan-file" and "stray-digit-colon-lines" in f.get("tags", []),
}
