"""C08 — exporting a domain and parsing it back preserves vocabulary and behaviour.

Space: the in-fragment V-domain corpus (+ numeric-constant programs) and every domain file shipped
under /repo/tests; every iteration order (site-uniform, <= bound deviations) of the sets the exporter
walks.
Oracle: D' = parse(export(D)) returns; vocabulary(D') == vocabulary(D); the behaviour table of D'
equals D's as computed by the implementation (differential) — reported only when the reference
readings of abs(D) and abs(D') differ as well or either is unavailable; constants within the print
precision; parse(export(parse(export(D)))) has the vocabulary and structure of parse(export(D))
(a second round changes nothing; the textual order of set members is not demanded).
"""
import glob
import os
import re

from .. import sexp
from ..absmap import abs_domain, AbsError
from ..bridge import guard, Raised, parse_domain, observe_state, operator, REPO
from ..core import Prog, ref_applicable, ref_successor, UNDEF, ILL, same_state, show
from ..gens import vdom
from ..permsched import installed, explore, Sched
from fractions import Fraction
from ..refsem import RefState, RefDomain, is_number
from ..runner import CaseResult, digest
from .c01 import vocab_lib
from .c20 import norm

ID = "C08"
RULE = ("generated: every in-fragment precondition / effect program of the bounded grammar (quick alphabets; pairwise "
        "profiles) plus programs with numeric constants {0,1,-2,0.5,0.25,1.75,0.125,0.0001,12345.678}; shipped: every "
        "file under /repo/tests that reads as a PDDL domain; export orders: identity + every single-site permutation "
        "(quick), pairs (thorough); behaviour compared on every type-correct call x every state of the relevant universe "
        "(<= 16 states per call quick). non-trivial = a program whose exported text differs from its source text as a "
        "token tree and whose behaviour table is not constant")
ASSUMPTIONS = ["a program whose first parse raises is C01's business and is skipped",
               "differential oracle: evaluator defects are shared by both sides and stay C02/C03's business",
               "constants are placed only where they are representable at the exporter's precision: 2 decimals in conditions (DEFAULT_DECIMAL_DIGITS), 4 in effects (DEFAULT_DIGITS)"]
CASE_TIMEOUT = 180
CONSTS = ["0", "1", "-2", "0.5", "0.25", "1.75", "0.125", "0.0001", "12345.678"]
CONSTS_2 = ["0", "1", "-2", "0.5", "0.25", "1.75", "12345.67"]


def shipped_domains():
    out = []
    for p in sorted(glob.glob(os.path.join(REPO, "tests", "**", "*.pddl"), recursive=True)):
        try:
            txt = open(p, encoding="utf-8").read()
            t = sexp.read(txt)
        except Exception:
            continue
        if isinstance(t, list) and len(t) > 1 and isinstance(t[1], list) and t[1][:1] == ["domain"]:
            out.append(os.path.relpath(p, REPO))
    return out


def cases(tier):
    seen = set()
    for gen in (vdom.pre_programs, vdom.eff_programs):
        for p in gen("quick"):
            if p["domain"] in seen:
                continue
            if "fine" in p["tags"]:
                continue  # constants with > 4 decimals are not representable at the exporter's precision (outside the quantifier)
            if re.search(r"\d\.\d{3,}", p["pre"]):
                continue  # a condition constant with > 2 decimals is not representable at the exporter's precision either
            if tier == "quick" and ("pre" in p["tags"] or p["tags"][0] in ("and3", "e3", "when+when")
                                    or "when+when" in p["tags"]):
                continue
            seen.add(p["domain"])
            c = dict(p)
            c["kind"] = "generated"
            c["max_states"] = 16 if tier == "quick" else 64
            c["orders"] = 1 if tier == "quick" else 2
            yield c
    for k in CONSTS:
        # conditions (preconditions, when-conditions) are printed at 2 decimals, effects at 4: a constant is only put
        # where it is representable at the exporter's precision for that place
        kc = k if k in CONSTS_2 else CONSTS_2[CONSTS.index(k) % len(CONSTS_2)]
        for pre, eff in ((f"(and (>= (g ?x) {kc}))", "(and (r))"), ("(and)", f"(and (increase (f) {k}))"),
                         (f"(and (< (* (f) {kc}) (g ?y)))", f"(and (assign (g ?x) (+ (g ?y) {k})))"),
                         ("(and)", f"(and (when (r) (increase (f) {k})))"),
                         ("(and)", f"(and (forall (?z - t1) (when (p ?z) (assign (g ?z) {k}))))"),
                         (f"(and (or (r) (>= (f) {kc})))", f"(and (when (< (g ?x) {kc}) (decrease (f) {k})))")):
            c = vdom.program("xy", pre, eff, ["const"])
            c["kind"] = "generated"
            c["max_states"] = 16
            c["orders"] = 1
            yield c
    for pre, eff in (("(and (>= (f) (- 0 (g ?y))))", "(and (increase (f) (- 0 (g ?x))))"),
                     ("(and (< (- 0 (f)) (+ 0 (g ?x))))", "(and (assign (g ?x) (- (g ?x) 0)) (when (r) (decrease (f) (- 0 1))))"),
                     ("(and (> (* 1 (f)) (/ (g ?y) 1)))", "(and (assign (f) (* (g ?x) 1)))"),
                     # a sum / product as the right operand of - and /, or an operand of *, where the exporter prints through
                     # its simplifier (nested conditions, when-conditions)
                     ("(and (or (r) (< (- (f) (+ (g ?x) 1)) 2)))", "(and (when (>= (* (g ?x) (+ (f) 1)) 2) (r)))"),
                     ("(and (or (not (r)) (<= (/ (f) (+ (g ?y) 2)) 1)))",
                      "(and (forall (?z - t1) (when (> (- (g ?z) (+ (f) (g ?x))) 0) (p ?z))))"),
                     ("(and (or (r) (<= (/ (f) (* 2 (g ?x))) 3)))", "(and (when (< (/ (g ?y) (* (f) (g ?x))) 1) (not (r))))"),
                     ("(and (p ?x) (or (> (* (+ (f) 1) (- (g ?x) 2)) 0) (q ?x ?y)))", "(and (r))"),
                     # products that land just below an integer in floating point (0.29 * 100, -0.57 * 100)
                     ("(and (or (r) (>= (* 100 (+ (g ?x) 0.29)) 128.5)))", "(and (when (<= (* 100 (- (g ?x) 0.57)) 43.5) (not (r))))"),
                     ("(and (or (r) (<= (/ 1 (* (g ?x) (g ?x))) 0.3)))", "(and (when (> (/ 1 (* (g ?x) (* (g ?x) (g ?x)))) 0.2) (not (r))))")):
        c = vdom.program("xy", pre, eff, ["const", "identity-operands"])
        c["kind"] = "generated"
        c["max_states"] = 16
        c["orders"] = 1
        yield c
    for rel in shipped_domains():
        yield {"kind": "shipped", "file": rel, "tags": ["shipped"], "pre": rel, "eff": "", "profile": "shipped"}


def export(D):
    from pddl_plus_parser.exporters import DomainExporter
    return DomainExporter().extract_domain(D)


_SHARED = []


def export_shared(D):
    """one exporter object for every domain of the run (all programs are called 'v' and differ in their declarations)"""
    from pddl_plus_parser.exporters import DomainExporter
    if not _SHARED:
        _SHARED.append(DomainExporter())
    return _SHARED[0].extract_domain(D)


def abs_key(P: RefDomain):
    """Structural digest of an abstraction: vocabulary + normalised action trees (numerals canonical)."""
    return {
        "types": sorted(P.parent.items(), key=str),
        "constants": sorted(P.constants.items()),
        "predicates": sorted((n, tuple(map(tuple, s))) for n, s in P.predicates.items()),
        "functions": sorted((n, tuple(map(tuple, s))) for n, s in P.functions.items()),
        "actions": sorted((n, tuple(a.params), sexp.dumps(norm(a.pre)), sexp.dumps(norm(a.eff)))
                          for n, a in P.actions.items()),
    }


def _masked(tree):
    if isinstance(tree, str):
        return "#" if is_number(tree) else tree
    return "(" + " ".join(_masked(t) for t in tree) + ")"


def _shape(tree):
    """the tree with numerals masked and the operands of and / or in a canonical order"""
    if isinstance(tree, str):
        return "#" if is_number(tree) else tree
    if tree and tree[0] in ("and", "or"):
        return "(" + tree[0] + " " + " ".join(sorted(_shape(t) for t in tree[1:])) + ")"
    return "(" + " ".join(_shape(t) for t in tree) + ")"


def numerals(tree, ctx):
    """(context, value) of every numeral, operands of and/or visited in a numeral-independent canonical order;
    context 'cond' (printed at 2 decimals) for preconditions and when-conditions, 'eff' (4 decimals) for effects"""
    out = []
    if isinstance(tree, str):
        if is_number(tree):
            out.append((ctx, Fraction(tree)))
        return out
    if not tree:
        return out
    h = tree[0]
    if h in ("and", "or"):
        for t in sorted(tree[1:], key=_masked):
            out += numerals(t, ctx)
    elif h == "when":
        out += numerals(tree[1], "cond") + numerals(tree[2], "eff")
    elif h == "forall":
        out += numerals(tree[2], ctx)
    else:
        for t in tree[1:]:
            out += numerals(t, ctx)
    return out


def constants_survive(P1, P2):
    """None if every constant of P2 is within half a unit of the last printed decimal of P1's; else a description"""
    for name, a1 in P1.actions.items():
        a2 = P2.actions.get(name)
        if a2 is None:
            continue
        n1 = numerals(a1.pre, "cond") + numerals(a1.eff, "eff")
        n2 = numerals(a2.pre, "cond") + numerals(a2.eff, "eff")
        if [c for c, _ in n1] != [c for c, _ in n2] or _shape(a1.pre) != _shape(a2.pre) or _shape(a1.eff) != _shape(a2.eff):
            continue  # different structure (e.g. a condition printed through the simplifier): judged by the behaviour clause
        for (ctx, v1), (_, v2) in zip(n1, n2):
            d = 2 if ctx == "cond" else 4
            if abs(v1 - v2) > Fraction(1, 2) / 10 ** d * (1 + Fraction(1, 10 ** 6)):
                return f"constant {float(v1)} in a {'condition' if ctx == 'cond' else 'effect'} of action {name} became {float(v2)} (printed precision {d} decimals)"
    return None


def observe(x):
    if isinstance(x, Raised):
        return x
    try:
        return observe_state(x)
    except Exception as e:
        return Raised(e)


def roundtrip(text, sched):
    """returns (D, exported text, D') or Raised at any step; D is parsed under the same seam."""
    with installed(sched):
        D = parse_domain(text)
        out = export(D)
        D2 = parse_domain(out)
        out2 = export(D2)
        D3 = parse_domain(out2)
    return D, out, D2, (out2, D3)


def check_generated(case, r):
    pg = Prog(case)
    if not pg.parsed:
        r.skipped = "parse-raised (C01's business)"
        return
    S = pg.S
    for sched, res in explore(lambda s: guard(roundtrip, pg.text, s), case.get("orders", 1)):
        r.count("schedules")
        order = sched.describe()
        if isinstance(res, Raised):
            r.outcome("roundtrip-raised")
            r.fail("roundtrip-raised", f"export/re-parse raised {res} order={order}; pre={case['pre']} eff={case['eff']} "
                   f"profile={case['profile']}", "parsed", res.to_json(), tags=case["tags"])
            return
        D, out, D2, out2 = res
        r.seen("states", digest((case["domain"], tuple(sched.choices))))
        v1, v2 = guard(vocab_lib, D), guard(vocab_lib, D2)
        if isinstance(v2, Raised) or v1 != v2:
            r.outcome("vocabulary-differs")
            r.fail("vocabulary", f"order={order}: vocabulary after round trip {show(v2)} != before {show(v1)}; "
                   f"exported text: {out}", show(v1), show(v2), tags=case["tags"])
            return
        out2, D3 = out2
        v3 = guard(vocab_lib, D3)
        try:
            k2, k3 = abs_key(abs_domain(D2)), abs_key(abs_domain(D3))
        except AbsError:
            k2 = k3 = None
        if v3 != v2 or k2 != k3:
            r.outcome("second-round-differs")
            r.fail("second-round", f"order={order}: a second export/parse round changes the domain:\n{out}\n---\n{out2}",
                   out, out2, tags=case["tags"])
            return
        try:
            P1, P2 = abs_domain(D), abs_domain(D2)
        except AbsError:
            P1 = P2 = None
        if P1 is not None:
            bad = constants_survive(P1, P2)
            if bad:
                r.outcome("constant-lost")
                r.fail("constants", f"order={order}: {bad}; pre={case['pre']} eff={case['eff']}; exported text:\n{out}",
                       "within print precision", bad, tags=case["tags"])
                return
        # behaviour: implementation vs implementation, over the relevant universe of the source program
        if sched.choices and any(sched.choices):
            # for permuted exports the structural comparison with the identity export suffices when equal
            if P1 is not None and abs_key(P1) == abs_key(P2):
                r.outcome("agree")
                continue
        act = S.actions["a"]
        for args in S.calls(act, pg.objs):
            states, _ = vdom.universe(S, act, args, pg.objs, max_states=case.get("max_states", 16))
            for st in states[: case.get("max_states", 16)]:
                if ref_applicable(S, "a", args, st, pg.objs) in (UNDEF, ILL):
                    continue
                ls1, pr1 = pg.lib_state(st, D)
                ls2, pr2 = pg.lib_state(st, D2)
                a1 = guard(lambda: operator(D, "a", args, pr1.objects).is_applicable(ls1))
                a2 = guard(lambda: operator(D2, "a", args, pr2.objects).is_applicable(ls2))
                r.count("transitions", 2)
                same = (a1 is a2) or (isinstance(a1, Raised) and isinstance(a2, Raised))
                s1 = s2 = None
                consistent = isinstance(ref_successor(S, "a", args, st, pg.objs), RefState)
                if same and a1 is True and not consistent:
                    r.outcome("skip-inconsistent-effects")
                if same and a1 is True and consistent:
                    s1 = observe(guard(lambda: operator(D, "a", args, pr1.objects).apply(ls1)))
                    s2 = observe(guard(lambda: operator(D2, "a", args, pr2.objects).apply(ls2)))
                    r.count("transitions", 2)
                    same = (isinstance(s1, RefState) and isinstance(s2, RefState) and same_state(s1, s2, exact=False)) \
                        or (isinstance(s1, Raised) and isinstance(s2, Raised))
                if same:
                    continue
                # attribution: only if the readings of the two parsed structures differ as well
                if P1 is not None:
                    p1 = ref_applicable(P1, "a", args, st, pg.objs)
                    p2 = ref_applicable(P2, "a", args, st, pg.objs)
                    q1 = ref_successor(P1, "a", args, st, pg.objs) if p1 is True else None
                    q2 = ref_successor(P2, "a", args, st, pg.objs) if p2 is True else None
                    if p1 == p2 and (q1 == q2):
                        r.outcome("evaluator-disagreement (C02/C03's business)")
                        continue
                r.outcome("behaviour-differs")
                r.fail("behaviour", f"order={order} (a {' '.join(args)}) in {st.to_json()}: original applicable={show(a1)} "
                       f"successor={show(s1)}; after export/re-parse applicable={show(a2)} successor={show(s2)}; "
                       f"exported text:\n{out}", show(s1) if s1 is not None else show(a1),
                       show(s2) if s2 is not None else show(a2), tags=case["tags"])
                return
        if not (sched.choices and any(sched.choices)):
            shared = guard(export_shared, parse_domain(pg.text))

            def same_domain():
                # order-insensitive: the operands of a conjunction come out of hash sets
                Dsh = parse_domain(shared)
                if vocab_lib(Dsh) != v2:
                    return False
                return P2 is None or abs_key(abs_domain(Dsh)) == abs_key(P2)
            if isinstance(shared, Raised) or guard(same_domain) is not True:
                r.outcome("shared-exporter-differs")
                r.fail("exporter-reuse", f"an exporter object that exported other domains before gives a different text for "
                       f"this one:\n{str(shared)[:600]}\n--- a fresh exporter:\n{out}", out, str(shared)[:500], tags=case["tags"])
                return
            again = guard(export, D)
            if isinstance(again, Raised) or sexp.read(again) != sexp.read(out):
                r.outcome("export-after-use-differs")
                r.fail("export-after-use", f"exporting the same Domain object again after it was grounded / applied gives a "
                       f"different text:\n{out}\n---\n{again}", out, str(again)[:500], tags=case["tags"])
                return
        r.outcome("agree")
    try:
        r.nontrivial = sexp.read(out) != sexp.read(pg.text)
    except Exception:
        r.nontrivial = True


def check_shipped(case, r):
    path = os.path.join(REPO, case["file"])
    text = open(path, encoding="utf-8").read()
    D = guard(parse_domain, text)
    if isinstance(D, Raised):
        r.skipped = "shipped file does not parse as a domain (C01's business)"
        r.outcome("shipped-unparsed")
        return
    r.nontrivial = True
    for sched, res in explore(lambda s: guard(roundtrip, text, s), 1, max_execs=40):
        r.count("schedules")
        r.count("transitions")
        order = sched.describe()
        if isinstance(res, Raised):
            r.outcome("roundtrip-raised")
            r.fail("roundtrip-raised", f"{case['file']}: export/re-parse raised {res} order={order}", "parsed",
                   res.to_json(), tags=case["tags"])
            return
        D1, out, D2, out2 = res
        r.seen("states", digest((case["file"], tuple(sched.choices))))
        v1, v2 = guard(vocab_lib, D1), guard(vocab_lib, D2)
        if isinstance(v2, Raised) or v1 != v2:
            r.outcome("vocabulary-differs")
            r.fail("vocabulary", f"{case['file']} order={order}: vocabulary after round trip differs: "
                   f"{_diff(v1, v2)}", "same", _diff(v1, v2), tags=case["tags"])
            return
        try:
            k1, k2 = abs_key(abs_domain(D1)), abs_key(abs_domain(D2))
        except AbsError:
            k1 = k2 = None
        if k1 != k2:
            bad = [(a, b) for a, b in zip(k1["actions"], k2["actions"]) if a != b][:1]
            r.outcome("structure-differs")
            r.fail("structure", f"{case['file']} order={order}: action structure after round trip differs: {bad}",
                   "same", str(bad), tags=case["tags"])
            return
        out2, D3 = out2
        try:
            k3 = abs_key(abs_domain(D3))
        except AbsError:
            k3 = None
        if guard(vocab_lib, D3) != v2 or k3 != k2:
            r.outcome("second-round-differs")
            r.fail("second-round", f"{case['file']} order={order}: a second export/parse round changes the domain", "same",
                   "differs", tags=case["tags"])
            return
        r.outcome("agree")


def _diff(v1, v2):
    if isinstance(v1, Raised) or isinstance(v2, Raised):
        return f"{show(v1)} vs {show(v2)}"
    out = {}
    for k in v1:
        if v1[k] != v2.get(k):
            a, b = v1[k], v2.get(k)
            if isinstance(a, dict) and isinstance(b, dict):
                out[k] = {x: (a.get(x), b.get(x)) for x in set(a) | set(b) if a.get(x) != b.get(x)}
            else:
                out[k] = (a, b)
    return str(out)[:600]


def check_case(case):
    r = CaseResult()
    if case["kind"] == "shipped":
        check_shipped(case, r)
    else:
        check_generated(case, r)
    return r
