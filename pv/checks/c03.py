"""C03 — applying an applicable action yields exactly the PDDL successor, whatever the internal order
in which effects are processed.

Space: every in-fragment effect of the V-domain corpus x every call x every state of the call's
relevant universe in which the action is applicable and the firing effects are consistent
x every iteration order (site-uniform, <= bound deviations) of the effect collections.
Oracle: RefState(sexp.read(op.apply(state).serialize())) == refsem.successor(...), whole state
(so the frame condition is included).  Attribution: DESIGN §2.4.
"""
from .. import sexp
from ..bridge import guard, Raised, parse_domain, operator, observe_state
from ..core import Prog, ref_applicable, ref_successor, UNDEF, ILL, INCONS, show
from ..core import same_state as _same_state
from ..gens import vdom
from ..permsched import installed, explore, Sched
from ..refsem import RefState
from ..runner import CaseResult, digest

ID = "C03"
RULE = ("every effect instance of the bounded grammar (DESIGN §3: unconditional, when, forall-when shapes over an 8 "
        "(quick) / 16 (thorough) simple-effect alphabet incl. delete/add, assign/increase/decrease; 6 condition forms; "
        "quantified types t1,t2,object) x 6 preconditions (pairwise) x 6 parameter profiles (pairwise) x every "
        "type-correct call x every state over the mentioned atoms/fluents where the call is applicable and the firing "
        "effects are consistent x iteration orders of every effect collection; non-trivial = the successor differs "
        "from the pre-state for some state and (for conditional programs) the condition was seen both holding and failing")
ASSUMPTIONS = ["inapplicable calls and inconsistent simultaneous effects are outside the quantifier (counted, not judged)",
               "fluent values on a dyadic grid, so float arithmetic is exact and successor values are compared exactly",
               "reference semantics pv.refsem (self-tested) is the oracle"]
CASE_TIMEOUT = 120


def cases(tier):
    for p in vdom.eff_programs(tier):
        p = dict(p)
        p["max_states"] = 128 if tier == "quick" else 512
        p["orders"] = 1 if tier == "quick" else 2
        yield p
    # chains over several schemas whose parameters are typed differently (one case per first action)
    for first in ("addn", "addw", "deln", "delw", "linkn", "cutw", "markn", "clearw", "flipw"):
        yield {"kind": "chain", "first": [first], "length": 3 if tier == "quick" else 4, "tags": ["chain"]}


CHAIN_DOMAIN = f"""(define (domain chain)
{vdom.REQ}
{vdom.TYPES}
(:predicates (p ?a - t1) (q ?a - t1 ?b - t1) (m ?a - object))
(:action addn :parameters (?x - t2) :precondition (and) :effect (and (p ?x)))
(:action addw :parameters (?x - t1) :precondition (and) :effect (and (p ?x)))
(:action deln :parameters (?x - t2) :precondition (and) :effect (and (not (p ?x))))
(:action delw :parameters (?x - t1) :precondition (and) :effect (and (not (p ?x))))
(:action linkn :parameters (?x - t2 ?y - t2) :precondition (and) :effect (and (q ?x ?y)))
(:action cutw :parameters (?x - t1 ?y - t1) :precondition (and) :effect (and (not (q ?x ?y))))
(:action markn :parameters (?x - t2) :precondition (and) :effect (and (m ?x)))
(:action clearw :parameters (?x - object) :precondition (and) :effect (and (not (m ?x))))
(:action flipw :parameters (?x - t1) :precondition (and) :effect (and (when (p ?x) (not (p ?x))) (when (not (p ?x)) (p ?x)))))
"""


def check_chain(case):
    """facts added by an action whose parameter is typed narrower (or wider) than the parameter of the action that
    deletes them: every sequence of <= L calls of a nine-schema domain from every state over three atoms, each step's
    successor against the reference (a fact is its name and arguments - who added it does not matter)"""
    from itertools import product
    from ..refsem import RefDomain, successor
    from ..bridge import parse_domain, parse_problem, operator
    from pddl_plus_parser.multi_agent.common import create_initial_state
    r = CaseResult()
    r.nontrivial = True
    S = RefDomain.from_tree(sexp.read(CHAIN_DOMAIN))
    objs = {"o1": "t1", "o2": "t2"}
    D = parse_domain(CHAIN_DOMAIN)
    calls = [(a.name, args) for a in S.actions.values() for args in S.calls(a, objs)]
    atoms = [("p", "o2"), ("q", "o2", "o2"), ("m", "o2")]
    for mask in range(8):
        init = [a for i, a in enumerate(atoms) if mask >> i & 1]
        P = parse_problem(f"(define (problem c) (:domain chain) (:objects o1 - t1 o2 - t2) (:init "
                          f"{' '.join('(' + ' '.join(a) + ')' for a in init)}) (:goal (and)))", D)
        for seq in product(calls, repeat=case["length"]):
            if seq[0][0] not in case["first"]:
                continue
            cur, ref = create_initial_state(P), RefState(init, {})
            for i, (name, args) in enumerate(seq):
                want = successor(S, S.actions[name], args, ref, objs)
                got = guard(lambda: observe_state(operator(D, name, list(args), P.objects).apply(cur)))
                nxt = guard(lambda: operator(D, name, list(args), P.objects).apply(cur))
                r.count("transitions")
                if isinstance(got, Raised) or not _same_state(got, want):
                    r.outcome("disagree")
                    r.fail("successor", f"chain {[(n, *a) for n, a in seq[:i + 1]]} from {sorted(init)}: step {i} gave {show(got)}, "
                           f"expected {want.to_json()} (pre-state {ref.to_json()})", want.to_json(), show(got), tags=["chain"])
                    return r
                cur, ref = nxt, want
            r.seen("states", digest((mask, seq)))
    r.outcome("agree")
    return r


def observe(x):
    if isinstance(x, Raised):
        return x
    try:
        return observe_state(x)
    except Exception as e:  # unreadable serialisation
        return Raised(e)


def check_case(case):
    if case.get("kind") == "chain":
        return check_chain(case)
    r = CaseResult()
    pg = Prog(case)
    if not pg.parsed:
        r.skipped = "parse-raised (C01's business)"
        r.outcome("parse-raised")
        return r
    act = pg.S.actions["a"]
    changed = False
    succ_kinds = set()
    exact = "inexact" not in case.get("tags", [])  # non-dyadic constants: fluent values at 1e-9 relative tolerance

    def same_state(a, b):
        return _same_state(a, b, exact=exact)

    def judge(got, s_succ, p_succ, args, st, order):
        if isinstance(got, RefState) and same_state(got, s_succ):
            r.outcome("agree")
            return False
        if isinstance(got, Raised) and got.type == "ValueError" and "not applicable" in got.msg:
            r.outcome("refused (C02's business)")
            return False
        at_parse_time = isinstance(p_succ, RefState) and isinstance(got, RefState) and same_state(got, p_succ)
        if at_parse_time:
            # the structure built at parse time already reads differently from the text (C01 reports it too); the
            # successor is wrong for the effects as written all the same
            r.outcome("disagree-already-at-parse-time")
        r.outcome("disagree")
        r.fail(("successor-as-written" if at_parse_time else "successor") if order is None else "successor-order",
               f"call (a {' '.join(args)}) state={st.to_json()} order={order}: implementation={show(got)} "
               f"expected={show(s_succ)} parsed-reading={show(p_succ)}"
               f"{' (the parsed structure already differs from the text)' if at_parse_time else ''} "
               f"eff={case['eff']} pre={case['pre']}",
               expected=show(s_succ), observed=show(got), tags=case.get("tags", []))
        return True

    for args in pg.S.calls(act, pg.objs):
        states, caps = vdom.universe(pg.S, act, args, pg.objs, max_states=case.get("max_states", 128))
        for c in caps:
            r.count("cap:" + c.split(" ")[0])
        judged = []
        refused = []
        for st in states:
            if ref_applicable(pg.S, "a", args, st, pg.objs) is not True:
                r.outcome("skip-inapplicable")
                if ref_applicable(pg.S, "a", args, st, pg.objs) is False and len(refused) < 3:
                    refused.append(st)
                continue
            s_succ = ref_successor(pg.S, "a", args, st, pg.objs)
            if not isinstance(s_succ, RefState):
                r.outcome("skip-" + s_succ)
                continue
            p_succ = ref_successor(pg.P, "a", args, st, pg.objs) if pg.P is not None else None
            changed |= s_succ != st
            succ_kinds.add(s_succ == st)
            r.seen("states", digest((case["eff"], case["pre"], args, st.key())))
            judged.append((st, s_succ, p_succ))
            lib_st, prob = pg.lib_state(st)
            got = observe(guard(lambda: pg.op("a", args, prob).apply(lib_st)))
            r.count("transitions")
            if judge(got, s_succ, p_succ, args, st, None) and len(r.fails) >= 3:
                return r
        if r.fails or not judged:
            continue
        # the rarely used switches: on an applicable action they change nothing about the successor
        for st, s_succ, p_succ in judged:
            for kw in ({"skip_validation": True}, {"allow_inapplicable_actions": True}):
                lib_st, prob = pg.lib_state(st)
                got = observe(guard(lambda: pg.op("a", args, prob).apply(lib_st, **kw)))
                r.count("transitions")
                r.count("switches")
                if judge(got, s_succ, p_succ, args, st, f"apply(..., {list(kw)[0]}=True) on a fresh operator"):
                    break
            if r.fails:
                break
        if r.fails:
            continue
        # one operator applied to its own successor, twice (where the reference defines the chain)
        for st, s_succ, p_succ in judged[:2]:
            chain, cur = [], s_succ
            for _ in range(2):
                if ref_applicable(pg.S, "a", args, cur, pg.objs) is not True:
                    break
                cur = ref_successor(pg.S, "a", args, cur, pg.objs)
                if not isinstance(cur, RefState):
                    break
                chain.append(cur)
            if not chain:
                continue
            lib_st, prob = pg.lib_state(st)

            def run_chain():
                op = pg.op("a", args, prob)
                s, outs = op.apply(lib_st), []
                for _ in chain:
                    s = op.apply(s)
                    outs.append(observe_state(s))
                return outs
            got = guard(run_chain)
            r.count("transitions", len(chain))
            r.count("chains")
            ok = not isinstance(got, Raised) and all(_same_state(g, e, exact=False) for g, e in zip(got, chain))
            if not ok:
                def fresh_chain():
                    s, outs = pg.op("a", args, prob).apply(pg.lib_state(st)[0]), []
                    for _ in chain:
                        s = pg.op("a", args, prob).apply(s)
                        outs.append(observe_state(s))
                    return outs
                fr = guard(fresh_chain)
                if not isinstance(fr, Raised) and all(_same_state(g, e, exact=False) for g, e in zip(fr, chain)):
                    last = got[-1] if not isinstance(got, Raised) else got
                    judge(last, chain[-1], None, args, st, "one operator applied to its own successors")
                    break
        if r.fails:
            continue
        # ONE operator object applied to every state in turn (each state short-lived)
        reused = guard(lambda: pg.op("a", args, pg.lib_state(judged[0][0])[1]))
        if not isinstance(reused, Raised):
            for k, (st, s_succ, p_succ) in enumerate(judged):
                if refused:
                    # the error path in between: an application that is refused (the caller catches the error)
                    guard(lambda: reused.apply(pg.lib_state(refused[k % len(refused)])[0]))
                    r.count("refused-in-between")
                got = observe(guard(lambda: reused.apply(pg.lib_state(st)[0])))
                r.count("transitions")
                r.count("operator-reuse")
                if not (isinstance(got, RefState) and same_state(got, s_succ)):
                    fresh = observe(guard(lambda: pg.op("a", args, pg.lib_state(st)[1]).apply(pg.lib_state(st)[0])))
                    if isinstance(fresh, RefState) and same_state(fresh, s_succ) and \
                            judge(got, s_succ, None, args, st, "one operator re-used over successive states"):
                        break
            if r.fails:
                continue
        # one Domain object, two problems with different object tables: the action is first tested in the full problem,
        # then applied in a problem that declares only the objects of the call (what the first problem declared must
        # not be ranged over in the second)
        if "two-tables" in case.get("tags", []):
            from ..bridge import make_state
            small = {o: t for o, t in pg.objects.items() if o in args}
            small_all = pg.S.all_objects(small)
            for st, s_succ, p_succ in judged:
                lib_st, prob = pg.lib_state(st)
                guard(lambda: pg.op("a", args, prob).is_applicable(lib_st))
                st2 = RefState([a for a in st.atoms if all(x in small_all for x in a[1:])],
                               {k: v for k, v in st.fluents.items() if all(x in small_all for x in k[1:])})
                if ref_applicable(pg.S, "a", args, st2, small_all) is not True:
                    continue
                want2 = ref_successor(pg.S, "a", args, st2, small_all)
                if not isinstance(want2, RefState):
                    continue
                ls2, pr2 = make_state(pg.D, pg.S.name, small, st2, constants=pg.S.constants)
                got = observe(guard(lambda: operator(pg.D, "a", args, pr2.objects).apply(ls2)))
                r.count("transitions")
                r.count("two-tables")
                if judge(got, want2, None, args, st2, f"second problem over the same Domain object declares only {sorted(small)}"):
                    break
            if r.fails:
                continue
        # for quantified effects, every declaration order of the problem's objects
        if "forall" in case.get("tags", []):
            from itertools import permutations
            names = list(pg.objects)
            perms = list(permutations(names))[1:]
            if case.get("orders", 1) <= 1:  # quick: reversal and one rotation; thorough: all
                perms = [tuple(reversed(names)), tuple(names[1:] + names[:1])]
            for perm in perms:
                for st, s_succ, p_succ in judged:
                    lib_st, prob = pg.lib_state(st, order=perm)
                    got = observe(guard(lambda: pg.op("a", args, prob).apply(lib_st)))
                    r.count("transitions")
                    r.count("object-orders")
                    if judge(got, s_succ, p_succ, args, st, f"objects declared {perm}"):
                        break
                if r.fails:
                    break
            if r.fails:
                continue
        # order pass: one parse per schedule, the states are built once per call and shared between schedules (apply
        # copies its input); a disagreement is confirmed in isolation (fresh objects, same schedule) before it counts,
        # so that an impure apply cannot leak into C03
        lib_states = [pg.lib_state(st) for st, _, _ in judged]

        def run(sched):
            out = []
            with installed(sched):
                D = parse_domain(pg.text)
                for ls, pr in lib_states:
                    out.append(observe(guard(lambda: operator(D, "a", args, pr.objects).apply(ls))))
            return out

        for sched, res in explore(run, case.get("orders", 1)):
            r.count("schedules")
            for (st, s_succ, p_succ), got in zip(judged, res):
                r.count("transitions")
                if isinstance(got, RefState) and same_state(got, s_succ):
                    continue

                def confirm():
                    with installed(Sched(sched.choices)):
                        D = parse_domain(pg.text)
                        ls, pr = pg.lib_state(st, D)
                        return operator(D, "a", args, pr.objects).apply(ls)
                got2 = observe(guard(confirm))
                if judge(got2, s_succ, p_succ, args, st, sched.describe()):
                    break
            if r.fails:
                break
        if len(r.fails) >= 3:
            break
    r.nontrivial = changed
    return r
