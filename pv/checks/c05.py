"""C05 — problem text is parsed faithfully and ill-formed facts are rejected.

Space: every problem of the bounded generator (object-table groupings, every init subset up to a size
bound over objects + constants incl. repeated arguments and zero-arity atoms, every fluent x every numeral
form, goal subsets + numeric goals) over a typed and an untyped domain, and every single-point
corruption of two base problems.
Oracle: valid -> Problem.objects / initial facts / fluent values / goal literals / numeric goals equal
the source (read independently by pv.sexp); corrupted -> parsing raises.
"""
from fractions import Fraction

from .. import sexp
from ..bridge import guard, Raised, parse_domain, parse_problem
from ..gens import problems as gp
from ..refsem import RefProblem, num
from ..runner import CaseResult, digest
from .c20 import norm

ID = "C05"
RULE = ("domains: typed (3-type tree, constant, 5 predicates, 4 functions) and untyped variant; valid problems: object table "
        "in 3-5 groupings/orders (one-by-one, reversed, tab/newline layout, grouped, trailing untyped, all untyped, empty), "
        "every subset of <= 3 (quick) / <= 4 (thorough) ground atoms over objects+constant (repeated arguments, zero "
        "arity) with a rotating fluent menu, every ground fluent x 16 numeral forms (integer, negative, decimal, exponent, tiny, leading zeros, -0, -0.0, upper-case E, trailing zero), "
        "every subset of <= 2 goal atoms with 0-1 of 4 numeric goals; corruptions: for 2 base problems every single "
        "replacement of an argument by an object of a non-conforming type / supertype / undeclared object, arity -1/+1, "
        "undeclared predicate/function, in facts, fluents, goal atoms and numeric-goal fluents, wrong :domain, undeclared "
        "object type. non-trivial = a valid problem with >= 2 init items or a corruption")
ASSUMPTIONS = [":metric is outside the property; negative goal literals are not generated",
               "no particular exception type is demanded for a corrupted problem"]
CASE_TIMEOUT = 60

_DOM = {}


def dom(typed):
    if typed not in _DOM:
        _DOM[typed] = parse_domain({True: gp.DOMAIN_T, False: gp.DOMAIN_U, "flat": gp.DOMAIN_F,
                                    "long-name": gp.DOMAIN_T.replace("(define (domain w)", "(define (domain w-num_2)")}[typed])
    return _DOM[typed]


FLAT_CASES = [  # (init item, must be accepted) in the FLAT domain: t2 is NOT a subtype of t1 there
    ("(p o2)", False), ("(= (g o2) 1)", False), ("(q o1 o2)", False), ("(s o2)", True), ("(p o1)", True),
    ("(m o2)", True), ("(= (k o2) 1)", True), ("(u o1 o1 o3)", True), ("(u o1 o2 o3)", False),
]


def cases(tier):
    batch = []
    for v in gp.valid_problems(tier):
        batch.append(v)
        if len(batch) == 20:
            yield {"kind": "valid-batch", "items": batch}
            batch = []
    if batch:
        yield {"kind": "valid-batch", "items": batch}
    batch = []
    for c in gp.corruptions(tier):
        batch.append(c)
        if len(batch) == 20:
            yield {"kind": "corrupt-batch", "items": batch}
            batch = []
    if batch:
        yield {"kind": "corrupt-batch", "items": batch}


def valid_text(v):
    init = [gp.atom_text(a) for a in v["atoms"]] + [f"(= ({k}) {n})" for k, n in v["fluents"].items()]
    goals = [gp.atom_text(a) for a in v["goals"]] + list(v["numgoals"])
    return gp.render(v["objs_text"], init, goals)


MIRROR = {"<": ">", ">": "<", "<=": ">=", ">=": "<=", "=": "="}


def canon_cmp(tree):
    """a comparison with a numeral on the left is read with its sides swapped and the operator mirrored (the same
    condition): storing it either way is faithful"""
    from ..refsem import is_number
    if isinstance(tree, list) and len(tree) == 3 and tree[0] in MIRROR and isinstance(tree[1], str) and is_number(tree[1]) \
            and not (isinstance(tree[2], str) and is_number(tree[2])):
        return [MIRROR[tree[0]], tree[2], tree[1]]
    return tree


def observe_problem(P):
    """neutral reading of the public attributes"""
    objs = {n: o.type.name for n, o in P.objects.items()}
    atoms = set()
    for preds in P.initial_state_predicates.values():
        for g in preds:
            atoms.add(tuple(sexp.read(g.untyped_representation)))
    fl = {}
    for f in P.initial_state_fluents.values():
        t = sexp.read(f.state_representation)
        # the value is read from the public attribute, not from the printed text (printing is what C09 / C14 judge)
        fl[tuple(t[1])] = Fraction(repr(float(f.value)))
    goals = [tuple(sexp.read(g.untyped_representation)) for g in P.goal_state_predicates]
    # numeric goals are read from the expression trees themselves (node values and children), not through the printer:
    # a printing fault must not be able to hide in both sides of a comparison
    def goal_tree(e):
        from ..absmap import abs_expr, AbsError
        try:
            return abs_expr(e.root)
        except (AbsError, AttributeError, TypeError):
            return sexp.read(e.to_pddl())
    numgoals = sorted(sexp.dumps(norm(canon_cmp(goal_tree(e)))) for e in P.goal_state_fluents)
    # second reading of the fluent terms inside the numeric goals: each leaf's own public text (name and arguments)
    terms = []
    for e in P.goal_state_fluents:
        stack = [e.root]
        while stack:
            n = stack.pop()
            if n.is_leaf and hasattr(n.value, "untyped_representation"):
                terms.append(sexp.dumps(sexp.read(n.value.untyped_representation)))
            stack.extend(n.children)
    return {"name": P.name, "objects": objs, "atoms": atoms, "fluents": fl, "goals": goals, "numgoals": numgoals,
            "numgoal_terms": sorted(terms)}


def _terms_of(tree, out):
    if isinstance(tree, list) and tree:
        if tree[0] in ("=", "<", ">", "<=", ">=", "+", "-", "*", "/"):
            for x in tree[1:]:
                _terms_of(x, out)
        else:
            out.append(sexp.dumps(tree))
    return out


def expected(v):
    return {"name": "prob", "objects": dict(v["objects"]),
            "atoms": {tuple(a) for a in v["atoms"]},
            "fluents": {tuple(k.split(" ")): num(n) for k, n in v["fluents"].items()},
            "goals": [tuple(a) for a in v["goals"]],
            "numgoals": sorted(sexp.dumps(norm(canon_cmp(sexp.read(g)))) for g in v["numgoals"]),
            "numgoal_terms": sorted(t for g in v["numgoals"] for t in _terms_of(sexp.read(g), []))}


def compare(want, got):
    """list of (clause, detail)"""
    out = []
    if got["name"] != want["name"]:
        out.append(("name", f"name {got['name']} != {want['name']}"))
    if got["objects"] != want["objects"]:
        out.append(("objects", f"objects {got['objects']} != {want['objects']}"))
    if got["atoms"] != want["atoms"]:
        out.append(("init-facts", f"facts {sorted(got['atoms'])} != {sorted(want['atoms'])}"))
    if got["fluents"] != want["fluents"]:
        out.append(("init-fluents", f"fluents { {k: str(v) for k, v in got['fluents'].items()} } != "
                    f"{ {k: str(v) for k, v in want['fluents'].items()} }"))
    if set(got["goals"]) != set(want["goals"]):
        out.append(("goal-literals", f"goal atoms {got['goals']} != {want['goals']}"))
    if got["numgoals"] != want["numgoals"]:
        out.append(("numeric-goals", f"numeric goals {got['numgoals']} != {want['numgoals']}"))
    elif got.get("numgoal_terms") is not None and want.get("numgoal_terms") is not None \
            and got["numgoal_terms"] != want["numgoal_terms"]:
        out.append(("numeric-goals", f"fluent terms inside the numeric goals read {got['numgoal_terms']} (each leaf's own text), "
                    f"expected {want['numgoal_terms']}"))
    return out


def check_case(case):
    r = CaseResult()
    if case["kind"] == "valid-batch":
        earlier = None
        for v in case["items"]:
            text = valid_text(v)
            # the independent reader must agree with the generator on what the text says
            rp = RefProblem.from_tree(sexp.read(text))
            assert rp.atoms == {tuple(a) for a in v["atoms"]}, text
            r.count("states")
            r.count("transitions")
            P = guard(parse_problem, text, dom(v["typed"]))
            tags = [v["decl"], "typed" if v["typed"] else "untyped"]
            if isinstance(P, Raised):
                r.outcome("valid-rejected")
                r.fail("valid-rejected", f"valid problem rejected with {P}:\n{text}", "parsed", P.to_json(), tags=tags)
                continue
            got = guard(observe_problem, P)
            if isinstance(got, Raised):
                r.fail("unreadable-problem", f"cannot observe parsed problem: {got}\n{text}", "", got.to_json(), tags=tags)
                continue
            diffs = compare(expected(v), got)
            if diffs:
                r.outcome("valid-altered")
                for clause, detail in diffs[:2]:
                    r.fail(clause, f"{detail}\n{text}", None, None, tags=tags)
            else:
                r.outcome("valid-faithful")
            # the same sections written in every other order (:goal before :init, :init before :objects, ...): the
            # problem read is the same, or the text is refused - a section is never silently left out
            if not diffs:
                from itertools import permutations as _perms
                tree = sexp.read(text)
                head, sections = tree[:3], tree[3:]
                for perm in list(_perms(range(len(sections))))[1:]:
                    text2 = sexp.dumps(head + [sections[i] for i in perm])
                    P2 = guard(parse_problem, text2, dom(v["typed"]))
                    r.count("transitions")
                    if isinstance(P2, Raised):
                        r.outcome("section-order-refused")
                        continue
                    got2 = guard(observe_problem, P2)
                    d2 = compare(expected(v), got2) if not isinstance(got2, Raised) else [("unreadable-problem", str(got2))]
                    if d2:
                        r.outcome("valid-altered")
                        r.fail("section-order", f"sections written in the order {[sections[i][0] for i in perm]}: {d2[0][1]}\n{text2}",
                               None, None, tags=tags + ["section-order"])
                        break
            # the problem parsed before this one over the same Domain object still reads as it did
            if earlier is not None:
                again = guard(observe_problem, earlier[0])
                if isinstance(again, Raised) or compare(earlier[1], again):
                    r.outcome("earlier-problem-changed")
                    r.fail("earlier-problem-changed", f"after this problem was parsed over the same Domain object, the problem "
                           f"parsed before it reads {again if isinstance(again, Raised) else compare(earlier[1], again)[:2]}\n"
                           f"earlier:\n{earlier[2]}\nthis:\n{text}", None, None, tags=tags + ["earlier-problem"])
            earlier = (P, got, text) if not diffs else None
            if len(v["atoms"]) + len(v["fluents"]) >= 2:
                r.nontrivial = True
            if len(r.fails) >= 4:
                break
    else:
        r.nontrivial = True
        # the flat-hierarchy twin of the domain, interleaved with the typed one in the same process
        for init, ok in FLAT_CASES:
            for first in (True, "flat"):
                for d in ((True, "flat") if first is True else ("flat", True)):
                    text = gp.render("o1 - t1 o2 - t2 o3 - t3", [init], [])
                    P = guard(parse_problem, text, dom(d))
                    r.count("transitions")
                    want = ok if d == "flat" else True
                    if (not isinstance(P, Raised)) != want:
                        r.fail("flat-twin", f"init {init} in the {'flat' if d == 'flat' else 'nested'} type hierarchy was "
                               f"{'accepted' if not isinstance(P, Raised) else 'rejected'}, expected "
                               f"{'accepted' if want else 'rejected'}", want, str(P)[:100], tags=["flat-twin", str(d)])
                        return r
        for c in case["items"]:
            r.count("states")
            r.count("transitions")
            P = guard(parse_problem, c["text"], dom(c.get("dom", True)))
            kind = c["what"].split(":")[0]
            if isinstance(P, Raised):
                r.outcome("corrupt-rejected:" + kind)
            else:
                r.outcome("corrupt-accepted:" + kind)
                r.fail("corrupt-accepted", f"corruption {c['what']} accepted:\n{c['text']}", "exception", "accepted",
                       tags=[c["what"], kind])
    return r


def _numgoal_unchecked(case, fail):
    """KF-C05-1: only an argument of a numeric-goal fluent replaced by an undeclared object or an object of a
    non-conforming type (arity and undeclared-function corruptions of numeric goals ARE rejected)."""
    what = fail["tags"][0].split(":")
    return (fail["clause"] == "corrupt-accepted" and what[0] == "numgoal" and len(what) == 4
            and what[2].startswith("pos"))


MATCHERS = {"numgoal_unchecked": _numgoal_unchecked}
