"""C11 — the S-expression reader returns the text's parenthesis structure, all of it.

Space: every token tree up to a node bound, each rendered with every combination of layout / case
deviations up to a deviation bound, through both entry points (string and file); plus every single
parenthesis deletion / insertion and trailing-text fault of the canonical rendering.
Oracle: well-formed -> result == generating tree, lower-cased; malformed -> parse() raises.
"""
from itertools import combinations, product

from .. import sexp
from ..bridge import guard, Raised, tokenize_str, tokenize_file
from ..runner import CaseResult, digest

ID = "C11"
ATOMS = ["a", "Bc", ":k", "?x", "-", "1.5", "<="]
ODD_ATOMS = ["x^2", "#t", "p@q", "a,b", "k|", "[i]", "$v", "!n", "~", "a&b", "50%", '"s"', "it's", "{z}", "\\e", "^",
             "\u00c9cole", "\u00c4RGER", "\u03a9mega", "\u0414\u041e\u041c"]  # letters outside ASCII have a case too
GAPS = [" ", "  ", "\t", "\n", "\r\n", "", " ;c\n", ";(x) ;y\n", "\n; only (comment\n", " \t \n", "\r",
        " ;p\x0c(q\x0b)r\x1c s\x85t\u2028u\n"]  # a comment ends at the line feed, not at a form feed / VT / NEL / LS inside it
SMALL_GAPS = [" ", "\t", "\n", " ;c\n", "", "\r\n", "\r"]
TINY_GAPS = [" ", "\t", "\n", ""]
EDGE_GAPS = ["", " ", "\n", "\t", ";c\n", "\r\n"]
CASEFN = [str.lower, str.upper, lambda s: s[:1].upper() + s[1:].lower()]

RULE = ("all ordered token trees (root a list) with <= N nodes; leaves labelled from a 7-atom alphabet "
        "(full product for <= 4 nodes, 7 rotations of the alphabet above); per tree: canonical rendering, "
        "all renderings with <= D deviations (a gap drawn from a 12-entry whitespace/comment menu (incl. a bare CR and a comment holding FF / VT / FS / NEL / LS), or an "
        "atom in another letter case), full product over a 5-entry menu for trees of <= 3 nodes, both "
        "entry points (quick: file entry for <= 1 deviation; deviations beyond the first (quick) / second (thorough) draw gaps from a 7-entry menu); all single-parenthesis deletions/insertions and 3 trailing-text faults. "
        "N,D = 5,2 (quick) / 6,3 (thorough). non-trivial = a tree with >= 1 atom and >= 1 nested list "
        "or >= 2 atoms")
ASSUMPTIONS = ["names with letters outside ASCII are lower-cased by Python's str.lower (no letter whose case mapping changes its length is used)", "a bare CR that would have to END A COMMENT, Unicode blanks, bare top-level atoms and empty input are outside the alphabet",
               "the generating tree is the specification; pv.sexp is cross-checked on every text"]
CASE_TIMEOUT = 120


def shapes(n):
    """All ordered trees with exactly n nodes whose root is a list; leaves are 'A' (atom) or [] (empty list)."""
    def forests(k):
        # sequences of trees with total k nodes
        if k == 0:
            yield []
            return
        for first in range(1, k + 1):
            for t in trees(first):
                for rest in forests(k - first):
                    yield [t] + rest

    def trees(k):
        if k == 1:
            yield "A"
            yield []
            return
        for f in forests(k - 1):
            if f:
                yield f

    for t in trees(n):
        if isinstance(t, list):
            yield t


def count_leaves(t):
    if t == "A":
        return 1
    return sum(count_leaves(x) for x in t)


def label(t, labels):
    it = iter(labels)

    def go(x):
        if x == "A":
            return next(it)
        return [go(y) for y in x]
    return go(t)


def cases(tier):
    nmax = 5 if tier == "quick" else 6
    seen = set()
    for n in range(1, nmax + 1):
        for sh in shapes(n):
            k = count_leaves(sh)
            if n <= 4:
                labelings = product(ATOMS, repeat=k)
            else:
                labelings = [[ATOMS[(r + i) % len(ATOMS)] for i in range(k)] for r in range(len(ATOMS))]
            for lab in labelings:
                tree = label(sh, list(lab))
                key = sexp.dumps(tree)
                if key in seen:
                    continue
                seen.add(key)
                yield {"tree": tree, "dev": 2 if tier == "quick" else 3, "tier": tier}
    # atoms written with characters outside the usual PDDL set ('^' is the library's own power operator)
    for n in range(2, 5 if tier == "quick" else 6):
        for sh in shapes(n):
            k = count_leaves(sh)
            if k == 0:
                continue
            for rot in range(len(ODD_ATOMS)):
                mixed = [ODD_ATOMS[(rot + i) % len(ODD_ATOMS)] if i % 2 == 0 else ATOMS[(rot + i) % len(ATOMS)]
                         for i in range(k)]
                tree = label(sh, mixed)
                key = sexp.dumps(tree)
                if key in seen:
                    continue
                seen.add(key)
                yield {"tree": tree, "dev": 1 if tier == "quick" else 2, "tier": tier, "odd": True}


def flat(tree):
    if isinstance(tree, str):
        return [tree]
    out = ["("]
    for t in tree:
        out.extend(flat(t))
    out.append(")")
    return out


def lower(tree):
    if isinstance(tree, str):
        return tree.lower()
    return [lower(t) for t in tree]


def canonical_gaps(toks):
    gaps = [""]
    for a, b in zip(toks, toks[1:]):
        gaps.append("" if (a == "(" or b == ")") else " ")
    gaps.append("")
    return gaps


def legal(gap_text, a, b):
    """A gap with no separating blank is only legal next to a parenthesis."""
    if a is None or b is None:
        return True
    if a in "()" or b in "()":
        return True
    return gap_text != "" and (gap_text[0] in " \t\r\n" or ";" in gap_text and "\n" in gap_text)
    # (a bare CR is a blank; every comment of the menu ends with LF, so no comment is ever closed by a bare CR)


def render(toks, gaps):
    out = [gaps[0]]
    for i, t in enumerate(toks):
        out.append(t)
        out.append(gaps[i + 1])
    return "".join(out)


def renderings(tree, dev, full_menu_upto=1):
    """yields (text, deviations).  Deviations beyond full_menu_upto draw gaps from SMALL_GAPS only."""
    toks = flat(tree)
    base_g = canonical_gaps(toks)
    atom_pos = [i for i, t in enumerate(toks) if t not in "()"]
    sites = []  # (kind, index, alternatives)
    for gi in range(len(base_g)):
        a = toks[gi - 1] if gi > 0 else None
        b = toks[gi] if gi < len(toks) else None
        menu = EDGE_GAPS if (a is None or b is None) else GAPS
        alts = [g for g in menu if g != base_g[gi] and legal(g, a, b)]
        # a comment gap directly after an atom glues ';' to the atom: legal PDDL (comment starts there)
        sites.append(("g", gi, alts))
    for ai in atom_pos:
        alts = sorted({f(toks[ai]) for f in CASEFN} - {toks[ai]})
        if alts:
            sites.append(("c", ai, alts))
    yield render(toks, base_g), 0
    for d in range(1, dev + 1):
        for combo in combinations(range(len(sites)), d):
            menus = [sites[i][2] for i in combo]
            if d > full_menu_upto:
                menus = [[x for x in m if sites[i][0] == "c" or x in SMALL_GAPS]
                         for i, m in zip(combo, menus)]
            for choice in product(*menus):
                g, t = list(base_g), list(toks)
                for si, alt in zip(combo, choice):
                    kind, idx, _ = sites[si]
                    if kind == "g":
                        g[idx] = alt
                    else:
                        t[idx] = alt
                yield render(t, g), d
    if len(toks) <= 5:
        # trees with <= 3 nodes: the full product over a small menu (every gap varied at once)
        small = SMALL_GAPS if full_menu_upto >= 2 else TINY_GAPS
        per_gap = []
        for gi in range(len(base_g)):
            a = toks[gi - 1] if gi > 0 else None
            b = toks[gi] if gi < len(toks) else None
            per_gap.append([x for x in small if legal(x, a, b)])
        for choice in product(*per_gap):
            yield render(toks, list(choice)), -1


def faults(tree):
    toks = flat(tree)
    g = " ".join
    for i, t in enumerate(toks):
        if t in "()":
            yield g(toks[:i] + toks[i + 1:]), f"delete {t} at {i}"
    for i in range(len(toks) + 1):
        for p in "()":
            yield g(toks[:i] + [p] + toks[i:]), f"insert {p} at {i}"
    c = g(toks)
    yield c + " " + c, "form form"
    yield c + " a", "form atom"
    yield c + "\n(b c)\n", "form newline form"
    yield c + " ;x\n zz", "form comment atom"


def check_reuse(r, tree, want):
    """one tokenizer object, parse() called three times: a well-formed text gives the same tree every time, a
    malformed one is rejected every time (never an answer built from what an earlier call left behind)"""
    from ..bridge import PDDLTokenizer, write_tmp
    toks = flat(tree)
    good = render(toks, canonical_gaps(toks))
    texts = [(good, True, "well-formed")] + [(t, False, what) for t, what in faults(tree)]
    for text, ok, what in texts:
        for entry in ("str", "file"):
            tk = guard(lambda: PDDLTokenizer(pddl_str=text) if entry == "str" else PDDLTokenizer(file_path=write_tmp(text, ".tok")))
            if isinstance(tk, Raised):
                continue
            r.count("states")
            for call in range(3):
                got = guard(tk.parse)
                r.count("transitions")
                if ok and not isinstance(got, Raised) and got == want and isinstance(got, list):
                    # the caller owns what parse() returned: editing it does not change what the next parse() returns
                    def scribble(x):
                        for y in x:
                            if isinstance(y, list):
                                scribble(y)
                        x.append("zz")
                        if len(x) > 1:
                            x.pop(0)
                    scribble(got)
                    continue
                if ok and (isinstance(got, Raised) or got != want):
                    r.outcome("reuse-wrong")
                    r.fail("reuse", f"{entry}: call {call + 1} of parse() on one tokenizer over {text!r} -> "
                           f"{got!r}, expected {want!r}", want, str(got), tags=[entry, "reuse"])
                    return
                if not ok and not isinstance(got, Raised):
                    r.outcome("reuse-malformed-accepted")
                    r.fail("malformed-accepted", f"{entry}: {what}: call {call + 1} of parse() on one tokenizer over "
                           f"{text!r} returned {got!r}", "exception", got, tags=[entry, "reuse"])
                    return
            r.outcome("reuse-ok")


def check_case(case):
    r = CaseResult()
    tree = case["tree"]
    want = lower(tree)
    n_atoms = sum(1 for t in flat(tree) if t not in "()")
    r.nontrivial = n_atoms >= 2 or (n_atoms >= 1 and any(isinstance(x, list) for x in tree))
    results = set()
    quick = case.get("tier", "quick") == "quick"
    for text, d in renderings(tree, case["dev"], 1 if quick else 2):
        ref = sexp.read(text)
        if ref != want:
            raise AssertionError(f"generator/reference disagreement on {text!r}: {ref} vs {want}")
        entries = (("str", tokenize_str), ("file", tokenize_file))
        if quick and d >= 2:
            entries = entries[:1]  # file entry point: <= 1 deviation and the full small product (quick)
        r.count("states")
        for entry, fn in entries:
            got = guard(fn, text)
            r.count("transitions")
            if isinstance(got, Raised):
                r.outcome("wellformed-raised")
                r.fail("wellformed-rejected", f"{entry}: {text!r} raised {got}", want, got.to_json(),
                       tags=[entry])
            elif got != want:
                r.outcome("wellformed-wrong")
                r.fail("structure", f"{entry}: {text!r} -> {got!r}, expected {want!r}", want, got,
                       tags=[entry])
            else:
                r.outcome("wellformed-ok")
            results.add(repr(got) if not isinstance(got, Raised) else "raised")
    for text, what in faults(tree):
        try:
            sexp.read(text)
            raise AssertionError(f"fault generator produced well-formed text {text!r}")
        except sexp.SexpError:
            pass
        r.count("states")
        for entry, fn in (("str", tokenize_str), ("file", tokenize_file)):
            got = guard(fn, text)
            r.count("transitions")
            r.count("fault_injections")
            if isinstance(got, Raised):
                r.outcome("malformed-rejected")
            else:
                r.outcome("malformed-accepted")
                r.fail("malformed-accepted", f"{entry}: {what}: {text!r} accepted as {got!r}", "exception",
                       got, tags=[entry, what.split(" at ")[0]])
    check_reuse(r, tree, want)
    r.count("distinct_results_per_tree_max", 0)
    if len(results) > 1:
        r.outcome("tree-with-layout-dependent-result")
    return r
