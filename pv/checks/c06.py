"""C06 — the subtype relation is the closure of the declared type tree, in any declaration order.

Space: all rooted forests on n labelled types (depth <= 4), each under every regrouping of its sibling
groups into 'c1 c2 - parent' lines, three ways of writing roots, every permutation of the lines; all
(object type, required type) pairs; use sites (problem facts, fluents, constants, forall conditions and
effects) on the parents-first and the children-first declaration of every forest.
Oracle: is_sub_type == reflexive-transitive closure; an object is accepted / ranged over exactly when
its declared type is a subtype of the required type.
"""
from itertools import permutations, product

from .. import sexp
from ..bridge import guard, Raised, parse_domain, parse_problem, observe_state, operator
from ..runner import CaseResult, digest

ID = "C06"
RULE = ("all labelled rooted forests on n <= 4 (quick) / n <= 5 (thorough, <= 720 line permutations) types, depth <= 4; "
        "per forest every set-partition of each sibling group into declaration lines x roots written as 'r - object' / "
        "as trailing untyped names / never on a left-hand side x every permutation of the lines; every ordered pair of "
        "types for is_sub_type and create_type_hierarchy_graph; use sites on 2 declarations per forest: fact, fluent, "
        "constant-argument acceptance for every (object type, required type) pair, forall-precondition truth and "
        "forall-effect range for every quantified type, also in a domain with one constant per type under an empty object table and under one object per type. non-trivial = a forest of depth >= 2")
ASSUMPTIONS = ["type names are plain lower-case identifiers; 'either' types are C01's out-of-fragment business"]
CASE_TIMEOUT = 120
NAMES = ["a", "b", "c", "d", "e"]


def forests(n):
    names = NAMES[:n]
    for parents in product([None] + names, repeat=n):
        par = dict(zip(names, parents))
        ok = True
        depth_max = 0
        for x in names:
            seen, cur, depth = set(), x, 1
            while par[cur] is not None:
                if cur in seen or par[cur] == cur:
                    ok = False
                    break
                seen.add(cur)
                cur = par[cur]
                depth += 1
            if not ok or depth > 4:
                ok = False
                break
            depth_max = max(depth_max, depth)
        if ok:
            yield par, depth_max


def set_partitions(items):
    if not items:
        yield []
        return
    first, rest = items[0], items[1:]
    for part in set_partitions(rest):
        yield [[first]] + part
        for i in range(len(part)):
            yield part[:i] + [[first] + part[i]] + part[i + 1:]


def declarations(par):
    """yields (lines, trailing) : lines = list of (children, parent name), trailing = untyped tail names."""
    names = list(par)
    groups = {}
    for x in names:
        groups.setdefault(par[x], []).append(x)
    roots = groups.pop(None, [])
    child_groups = list(groups.items())
    has_children = {p for p in groups}
    per_group = [[(part, p) for part in set_partitions(kids)] for p, kids in child_groups]
    for combo in product(*per_group):
        lines = []
        for parts, p in combo:
            for part in parts:
                lines.append((part, p))
        # roots: (i) explicit '- object' (every partition), (ii) trailing untyped, (iii) never on a left-hand side
        for rp in set_partitions(roots):
            yield lines + [(part, "object") for part in rp], [], "explicit"
        yield list(lines), list(roots), "trailing"
        if roots and all(r in has_children for r in roots):
            yield list(lines), [], "implicit"
        elif roots and any(r in has_children for r in roots):
            rest = [r for r in roots if r not in has_children]
            yield lines + [(rest, "object")], [], "implicit"


def render(lines, trailing):
    return " ".join(" ".join(kids) + " - " + p for kids, p in lines) + (" " + " ".join(trailing) if trailing else "")


def closure(par, a, b):
    if b == "object":
        return True
    cur = a
    while cur is not None:
        if cur == b:
            return True
        cur = par.get(cur)
    return False


def cases(tier):
    nmax = 4 if tier == "quick" else 5
    for n in range(1, nmax + 1):
        for par, depth in forests(n):
            yield {"parent": par, "depth": depth, "perm_cap": 720, "tags": [f"n{n}", f"depth{depth}"]}


def domain_text(types_text, extra=""):
    return (f"(define (domain t)\n(:requirements :typing)\n(:types {types_text})\n{extra})\n")


def check_relation(r, case, par, text, what):
    D = guard(parse_domain, domain_text(text, "(:predicates (mk ?x - object))"))
    r.count("transitions")
    if isinstance(D, Raised):
        r.fail("types-rejected", f"(:types {text}) raised {D}", "parsed", D.to_json(), tags=case["tags"] + [what])
        return False
    names = sorted(par)
    got_names = sorted(D.types.keys())
    if got_names != sorted(names + ["object"]):
        r.fail("type-set", f"(:types {text}) -> types {got_names}, expected {sorted(names + ['object'])}",
               sorted(names + ["object"]), got_names, tags=case["tags"] + [what])
        return False
    copy_ = guard(lambda: D.shallow_copy())
    for a in names + ["object"]:
        for b in names + ["object"]:
            want = closure(par, a, b) if a != "object" else b == "object"
            got = guard(lambda: D.types[a].is_sub_type(D.types[b]))
            r.count("pairs")
            if got is not want:
                r.fail("subtype", f"(:types {text}): {a} is_sub_type {b} = {got}, expected {want}", want, str(got),
                       tags=case["tags"] + [what])
                return False
            # the public copy of the domain carries the same relation
            got_c = guard(lambda: copy_.types[a].is_sub_type(copy_.types[b]))
            if got_c is not want:
                r.fail("subtype", f"(:types {text}): in Domain.shallow_copy(), {a} is_sub_type {b} = {got_c}, expected {want}",
                       want, str(got_c), tags=case["tags"] + [what, "shallow-copy"])
                return False
    from pddl_plus_parser.models import create_type_hierarchy_graph
    g = guard(create_type_hierarchy_graph, D.types)
    want_edges = sorted((par[x] or "object", x) for x in names)
    got_edges = sorted(g.edges()) if not isinstance(g, Raised) else g
    if got_edges != want_edges:
        r.fail("hierarchy-graph", f"(:types {text}): graph edges {got_edges}, expected {want_edges}", want_edges,
               str(got_edges), tags=case["tags"] + [what])
        return False
    return True


def check_use_sites(r, case, par, text, what):
    names = sorted(par)
    allt = names + ["object"]
    preds = " ".join(f"(p_{t} ?x - {t})" for t in allt)
    funcs = " ".join(f"(g_{t} ?x - {t}) (g2_{t} ?c - object ?x - {t})" for t in allt)
    consts = " ".join(f"k_{t} - {t}" for t in allt)
    objs = " ".join(f"o_{t} - {t}" for t in allt)
    actions = "\n".join(
        f"(:action chk_{t} :parameters () :precondition (and (forall (?z - {t}) (and (mk ?z)))) :effect (and (r)))\n"
        f"(:action clr_{t} :parameters () :precondition (and) :effect (and (forall (?z - {t}) (when (mk ?z) (not (mk ?z))))))"
        for t in allt)
    actions_q = actions
    twin = "\n".join(
        f"(:action two_{t}_{u} :parameters () :precondition (and (forall (?z - {t}) (and (mk ?z))) "
        f"(forall (?z - {u}) (and (mk2 ?z)))) :effect (and (r)))" for t in allt for u in allt if t != u)
    nested = "\n".join(
        f"(:action nchk_{t} :parameters () :precondition (and (and (forall (?z - {t}) (and (mk ?z))))) :effect (and (r)))\n"
        f"(:action ochk_{t} :parameters () :precondition (and (or (forall (?z - {t}) (and (mk ?z))) (r))) :effect (and (r)))"
        for t in allt)
    pairfx = "\n".join(
        f"(:action clr2_{t}_{u} :parameters () :precondition (and) :effect (and "
        f"(forall (?z - {t}) (when (mk ?z) (not (mk ?z)))) (forall (?w - {u}) (when (mk2 ?w) (not (mk2 ?w))))))"
        for t in allt for u in allt if t != u)
    actions = actions + "\n" + twin + "\n" + nested + "\n" + pairfx
    preds += " " + " ".join(f"(t3_{t} ?a - object ?b - object ?c - {t}) (u3_{t} ?a - {t} ?b - object ?c - {t}) "
                            f"(v3_{t} ?a - object ?b - {t} ?c - object)" for t in allt)
    base = f"(:predicates (r) (mk ?x - object) (mk2 ?x - object) {preds})\n(:functions {funcs})\n"
    touch = "\n".join(
        f"(:action touch_{t} :parameters (?x - {t}) :precondition (and (p_object ?x)"
        + (f" (p_{par[t]} ?x)" if par.get(t) else "") + ") :effect (and (mk ?x)))" for t in names)
    D = guard(parse_domain, domain_text(text, f"(:constants {consts})\n" + base + touch))
    Dq = guard(parse_domain, domain_text(text, base + actions))
    # an untyped constant written after the typed groups is of the root type: accepted exactly where 'object' is required
    consts_free = " ".join(f"k_{t} - {t}" for t in ["object"] + names)   # the last typed group is not the root type
    Dfree = guard(parse_domain, domain_text(text, f"(:constants {consts_free} k_free)\n" + base))
    if isinstance(Dfree, Raised):
        r.fail("use-site-domain-rejected", f"(:types {text}): (:constants {consts_free} k_free) raised {Dfree}", "parsed", str(Dfree),
               tags=case["tags"] + [what])
        return
    for rho in allt:
        for kind, init in (("constant-fact", f"(p_{rho} k_free)"), ("constant-fluent", f"(= (g_{rho} k_free) 2)")):
            got = guard(parse_problem, f"(define (problem p) (:domain t) (:objects {objs}) (:init {init}) (:goal (and)))", Dfree)
            r.count("transitions")
            accepted = not isinstance(got, Raised)
            if accepted != (rho == "object"):
                r.fail("use-site-" + kind, f"(:types {text}) (:constants {consts_free} k_free): {init} with the trailing untyped constant "
                       f"where {rho} is required was {'accepted' if accepted else 'rejected: ' + str(got)}, expected "
                       f"{'accepted' if rho == 'object' else 'rejected'}", rho == "object", accepted,
                       tags=case["tags"] + [what, kind, "trailing-untyped-constant"])
                return
    if isinstance(D, Raised) or isinstance(Dq, Raised):
        r.fail("use-site-domain-rejected", f"(:types {text}): use-site domain raised {D} / {Dq}", "parsed", str(D),
               tags=case["tags"] + [what])
        return

    def sub(a, b):
        return closure(par, a, b) if a != "object" else b == "object"

    # the declarations are used before they are asked about: every touch_t is grounded and tested once (its parameter
    # is narrower than the declared parameter of the predicates it mentions); what a predicate accepts stays as declared
    p0 = guard(parse_problem, f"(define (problem p) (:domain t) (:objects {objs}) (:init) (:goal (and)))", D)
    if not isinstance(p0, Raised):
        from pddl_plus_parser.multi_agent.common import create_initial_state as _cis
        for t in names:
            guard(lambda: operator(D, f"touch_{t}", [f"o_{t}"], p0.objects).is_applicable(_cis(p0)))
            r.count("transitions")

    for tau in allt:
        for rho in allt:
            want = sub(tau, rho)
            for kind, init in (("fact", f"(p_{rho} o_{tau})"), ("fluent", f"(= (g_{rho} o_{tau}) 1)"),
                               ("constant-fact", f"(p_{rho} k_{tau})"), ("constant-fluent", f"(= (g_{rho} k_{tau}) 2)"),
                               ("fluent-after-constant", f"(= (g2_{rho} k_{allt[0]} o_{tau}) 3)")):
                ptxt = f"(define (problem p) (:domain t) (:objects {objs}) (:init {init}) (:goal (and)))"
                got = guard(parse_problem, ptxt, D)
                r.count("transitions")
                accepted = not isinstance(got, Raised)
                if accepted != want:
                    r.fail("use-site-" + kind, f"(:types {text}): {init} with an object/constant of type {tau} where {rho} "
                           f"is required was {'accepted' if accepted else 'rejected: ' + str(got)}, expected "
                           f"{'accepted' if want else 'rejected'}", want, accepted, tags=case["tags"] + [what, kind])
                    return
            # three-place facts in which one object fills two positions: every position keeps its own type
            other = "o_object" if tau != "object" else f"o_{names[0]}"
            for kind, fact in (("fact-repeat-12", f"(t3_{rho} {other} {other} o_{tau})"),
                               ("fact-repeat-13", f"(u3_{rho} o_{tau} {other} o_{tau})"),
                               ("fact-repeat-13-mid", f"(v3_{rho} {other} o_{tau} {other})")):
                for where, ptxt in (("init", f"(define (problem p) (:domain t) (:objects {objs}) (:init {fact}) (:goal (and)))"),
                                    ("goal", f"(define (problem p) (:domain t) (:objects {objs}) (:init) (:goal (and {fact})))")):
                    got = guard(parse_problem, ptxt, D)
                    r.count("transitions")
                    accepted = not isinstance(got, Raised)
                    if accepted != want:
                        r.fail("use-site-" + kind, f"(:types {text}): {where} {fact} with an object of type {tau} where {rho} is "
                               f"required was {'accepted' if accepted else 'rejected: ' + str(got)}, expected "
                               f"{'accepted' if want else 'rejected'}", want, accepted, tags=case["tags"] + [what, kind])
                        return
            # goal position
            ptxt = f"(define (problem p) (:domain t) (:objects {objs}) (:init) (:goal (and (p_{rho} o_{tau}))))"
            got = guard(parse_problem, ptxt, D)
            r.count("transitions")
            if (not isinstance(got, Raised)) != want:
                r.fail("use-site-goal", f"(:types {text}): goal (p_{rho} o_{tau}) "
                       f"{'accepted' if not isinstance(got, Raised) else 'rejected'}, expected "
                       f"{'accepted' if want else 'rejected'}", want, not isinstance(got, Raised),
                       tags=case["tags"] + [what, "goal"])
                return
    # quantifier ranges in a domain WITH constants (one per type), under two object tables: constants only (an empty
    # (:objects) section - the table handed to the operator is empty, not missing) and one object per type as well.
    # (mk ?x - object) is declared on the root, so a fact never tells the type of its argument: the declared types do
    from pddl_plus_parser.multi_agent.common import create_initial_state as _cis2
    Dc = guard(parse_domain, domain_text(text, f"(:constants {consts})\n" + base + actions_q))
    if isinstance(Dc, Raised):
        r.fail("use-site-domain-rejected", f"(:types {text}): quantifier domain with constants raised {Dc}", "parsed", str(Dc),
               tags=case["tags"] + [what])
        return
    for table, otext in (("constants-only", ""), ("objects-and-constants", objs)):
        pre = ["k"] if not otext else ["k", "o"]
        for rho in allt:
            in_range = [f"{x}_{t}" for t in allt if sub(t, rho) for x in pre]
            everything = [f"{x}_{t}" for t in allt for x in pre]
            # mention: every object and constant also occurs in a fact of the root-typed (mk2 ?x - object), so a reading of
            # types off the state's facts would see it as an 'object'
            for missing, mention in [(m, k) for m in [None] + in_range for k in (False, True)]:
                marks = " ".join(f"(mk {e})" for e in in_range if e != missing)
                if mention:
                    marks += " " + " ".join(f"(mk2 {e})" for e in everything)
                prob = guard(parse_problem, f"(define (problem p) (:domain t) (:objects {otext}) (:init {marks}) (:goal (and)))", Dc)
                if isinstance(prob, Raised):
                    r.fail("use-site-domain-rejected", f"problem with (:objects {otext}) rejected: {prob}", "parsed", str(prob),
                           tags=case["tags"] + [what, table])
                    return
                got = guard(lambda: operator(Dc, f"chk_{rho}", [], prob.objects).is_applicable(_cis2(prob)))
                r.count("transitions")
                if got is not (missing is None):
                    r.fail("forall-precondition-range", f"(:types {text}) (:constants {consts}) [{table}]: forall (?z - {rho}) (mk ?z) "
                           f"with every object and constant in range marked except {missing}{' (all mentioned in mk2 facts)' if mention else ''} -> {got}, expected {missing is None}",
                           missing is None, str(got), tags=case["tags"] + [what, table])
                    return
            prob = guard(parse_problem, f"(define (problem p) (:domain t) (:objects {otext}) (:init "
                         + " ".join(f"(mk {e}) (mk2 {e})" for e in everything) + ") (:goal (and)))", Dc)
            nxt = guard(lambda: observe_state(operator(Dc, f"clr_{rho}", [], prob.objects).apply(_cis2(prob))))
            r.count("transitions")
            want_atoms = {("mk", e) for e in everything if e not in in_range} | {("mk2", e) for e in everything}
            if isinstance(nxt, Raised) or set(nxt.atoms) != want_atoms:
                r.fail("forall-effect-range", f"(:types {text}) (:constants {consts}) [{table}]: forall (?z - {rho}) effect left "
                       f"{sorted(nxt.atoms) if not isinstance(nxt, Raised) else nxt}, expected {sorted(want_atoms)}",
                       sorted(want_atoms), str(nxt), tags=case["tags"] + [what, table])
                return
    # quantifier ranges; a second object of every type is declared after all the first ones (objects of one type are
    # not neighbours in the declaration), and must be ranged over like the first
    from ..refsem import RefState
    objs1 = objs
    objs = objs + " " + " ".join(f"o2_{t} - {t}" for t in allt)
    for rho in allt:
        in_range = [t for t in allt if sub(t, rho)]
        in_objs = [f"o_{t}" for t in in_range] + [f"o2_{t}" for t in in_range]
        for missing_o in in_objs:
            marks = " ".join(f"(mk {o})" for o in in_objs if o != missing_o)
            ptxt = f"(define (problem p) (:domain t) (:objects {objs}) (:init {marks}) (:goal (and)))"
            prob = guard(parse_problem, ptxt, Dq)
            if isinstance(prob, Raised):
                r.fail("use-site-domain-rejected", f"problem rejected: {prob}", "parsed", str(prob), tags=case["tags"])
                return
            from pddl_plus_parser.multi_agent.common import create_initial_state
            got = guard(lambda: operator(Dq, f"chk_{rho}", [], prob.objects).is_applicable(create_initial_state(prob)))
            r.count("transitions")
            if got is not False:
                r.fail("forall-precondition-range", f"(:types {text}): [two objects per type, declared {objs}] forall (?z - "
                       f"{rho}) (mk ?z) with every object in range marked except {missing_o} -> {got}, expected False",
                       False, str(got), tags=case["tags"] + [what, "two-per-type"])
                return
        ptxt = (f"(define (problem p) (:domain t) (:objects {objs}) (:init "
                + " ".join(f"(mk o_{t}) (mk o2_{t})" for t in allt) + ") (:goal (and)))")
        prob = parse_problem(ptxt, Dq)
        nxt = guard(lambda: observe_state(operator(Dq, f"clr_{rho}", [], prob.objects).apply(create_initial_state(prob))))
        r.count("transitions")
        want_atoms = {("mk", f"{o}_{t}") for t in allt if t not in in_range for o in ("o", "o2")}
        if isinstance(nxt, Raised) or set(nxt.atoms) != want_atoms:
            r.fail("forall-effect-range", f"(:types {text}): [two objects per type, declared {objs}] forall (?z - {rho}) "
                   f"effect left {sorted(nxt.atoms) if not isinstance(nxt, Raised) else nxt}, expected {sorted(want_atoms)}",
                   sorted(want_atoms), str(nxt), tags=case["tags"] + [what, "two-per-type"])
            return
    # two quantified effects in one action, over every ordered pair of different types: each ranges over its own type
    ptxt = (f"(define (problem p) (:domain t) (:objects {objs1}) (:init "
            + " ".join(f"(mk o_{t}) (mk2 o_{t})" for t in allt) + ") (:goal (and)))")
    prob = parse_problem(ptxt, Dq)
    for t in allt:
        for u in allt:
            if t == u:
                continue
            nxt = guard(lambda: observe_state(operator(Dq, f"clr2_{t}_{u}", [], prob.objects).apply(create_initial_state(prob))))
            r.count("transitions")
            want_atoms = {("mk", f"o_{x}") for x in allt if not sub(x, t)} | {("mk2", f"o_{x}") for x in allt if not sub(x, u)}
            if isinstance(nxt, Raised) or set(nxt.atoms) != want_atoms:
                r.fail("forall-effect-range", f"(:types {text}): forall (?z - {t}) (un-mk) and forall (?w - {u}) (un-mk2) in one "
                       f"action left {sorted(nxt.atoms) if not isinstance(nxt, Raised) else nxt}, expected {sorted(want_atoms)}",
                       sorted(want_atoms), str(nxt), tags=case["tags"] + [what, "two-forall-effects"])
                return
    objs = objs1
    for rho in allt:
        in_range = [t for t in allt if sub(t, rho)]
        marks_all = " ".join(f"(mk o_{t})" for t in in_range)
        for missing in [None] + in_range:
            marks = " ".join(f"(mk o_{t})" for t in in_range if t != missing)
            ptxt = f"(define (problem p) (:domain t) (:objects {objs}) (:init {marks}) (:goal (and)))"
            prob = guard(parse_problem, ptxt, Dq)
            if isinstance(prob, Raised):
                r.fail("use-site-domain-rejected", f"problem rejected: {prob}", "parsed", str(prob), tags=case["tags"])
                return
            from pddl_plus_parser.multi_agent.common import create_initial_state
            st = create_initial_state(prob)
            want = missing is None
            for act in ("chk", "nchk", "ochk"):
                got = guard(lambda: operator(Dq, f"{act}_{rho}", [], prob.objects).is_applicable(st))
                r.count("transitions")
                if got is not want:
                    r.fail("forall-precondition-range", f"(:types {text}): [{act}] forall (?z - {rho}) (mk ?z) with marked "
                           f"{[t for t in in_range if t != missing]} (objects one per type) -> {got}, expected {want}",
                           want, str(got), tags=case["tags"] + [what, act])
                    return
        # two quantifiers over the same variable name with different types in one precondition
        for other in allt:
            if other == rho:
                continue
            in2 = [t for t in allt if sub(t, other)]
            for drop in (None, "mk", "mk2"):
                m1 = [t for t in in_range if not (drop == "mk" and t == in_range[0])]
                m2 = [t for t in in2 if not (drop == "mk2" and t == in2[-1])]
                marks = " ".join(f"(mk o_{t})" for t in m1) + " " + " ".join(f"(mk2 o_{t})" for t in m2)
                ptxt = f"(define (problem p) (:domain t) (:objects {objs}) (:init {marks}) (:goal (and)))"
                prob = parse_problem(ptxt, Dq)
                from pddl_plus_parser.multi_agent.common import create_initial_state
                got = guard(lambda: operator(Dq, f"two_{rho}_{other}", [], prob.objects).is_applicable(create_initial_state(prob)))
                r.count("transitions")
                if got is not (drop is None):
                    r.fail("forall-precondition-range", f"(:types {text}): (forall (?z - {rho}) (mk ?z)) and (forall (?z - {other}) "
                           f"(mk2 ?z)) with mk on {m1}, mk2 on {m2} -> {got}, expected {drop is None}", drop is None, str(got),
                           tags=case["tags"] + [what, "two-forall"])
                    return
        # effect: start with every object marked, clr_rho must unmark exactly the objects in range
        ptxt = (f"(define (problem p) (:domain t) (:objects {objs}) (:init "
                + " ".join(f"(mk o_{t})" for t in allt) + ") (:goal (and)))")
        prob = parse_problem(ptxt, Dq)
        from pddl_plus_parser.multi_agent.common import create_initial_state
        st = create_initial_state(prob)
        nxt = guard(lambda: observe_state(operator(Dq, f"clr_{rho}", [], prob.objects).apply(st)))
        r.count("transitions")
        want_atoms = {("mk", f"o_{t}") for t in allt if t not in in_range}
        if isinstance(nxt, Raised) or set(nxt.atoms) != want_atoms:
            r.fail("forall-effect-range", f"(:types {text}): forall (?z - {rho}) effect left "
                   f"{sorted(nxt.atoms) if not isinstance(nxt, Raised) else nxt}, expected {sorted(want_atoms)}",
                   sorted(want_atoms), str(nxt), tags=case["tags"] + [what])
            return


def check_case(case):
    r = CaseResult()
    par = case["parent"]
    r.nontrivial = case["depth"] >= 2
    seen_texts = set()
    first = last = None
    for lines, trailing, mode in declarations(par):
        perms = permutations(range(len(lines)))
        for k, perm in enumerate(perms):
            if k >= case["perm_cap"]:
                r.count("cap:perms")
                break
            text = render([lines[i] for i in perm], trailing)
            if text in seen_texts:
                continue
            seen_texts.add(text)
            r.count("states")
            r.count("declarations")
            if not check_relation(r, case, par, text, mode):
                return r
    # use sites: a parents-first and a children-first single-line-per-type declaration
    order = sorted(par, key=lambda x: (len(_chain(par, x)), x))
    for what, seq in (("parents-first", order), ("children-first", list(reversed(order)))):
        text = " ".join(f"{x} - {par[x] or 'object'}" for x in seq)
        check_use_sites(r, case, par, text, what)
        if r.fails:
            return r
    return r


def _chain(par, x):
    out = []
    while x is not None:
        out.append(x)
        x = par[x]
    return out
