"""C14 — states behave as values: equality, copy and serialization agree.

Space: every state over a small universe (atoms incl. a zero-arity and a repeated-argument atom, fluents
incl. a zero-arity and a repeated-argument fluent, each absent or with one of 3 values), each BUILT ALONG
SEVERAL ROUTES (problem parser in two init orders, trajectory parser, copy, copy of copy, successor
reached by applying an action to a neighbouring state), all ordered pairs of states x all route pairs.
Oracle: s1 == s2 <=> same facts and same fluent->value map; serialize() read independently gives the
state back (hence unequal states never serialize to texts that read as equal states); a copy is equal
and independent (mutating either side leaves the other unchanged).
"""
from fractions import Fraction
from itertools import product

from .. import sexp
from ..bridge import guard, Raised, parse_domain, parse_problem, observe_state, observe_state_dicts, operator, fmt_num
from ..core import same_state, show
from ..refsem import RefState
from ..runner import CaseResult, digest

ID = "C14"
DOM = """(define (domain v14)
(:requirements :typing :numeric-fluents)
(:types t1 - object t2 - t1)
(:predicates (p ?a - t1) (q ?a - t1 ?b - t1) (r))
(:functions (f) (g ?a - t1) (h ?a - t1 ?b - t1))
(:action add-p :parameters (?x - t1) :precondition (and) :effect (and (p ?x)))
(:action add-q :parameters (?x - t1 ?y - t1) :precondition (and) :effect (and (q ?x ?y)))
(:action add-r :parameters () :precondition (and) :effect (and (r)))
(:action del-p :parameters (?x - t1) :precondition (and) :effect (and (not (p ?x))))
(:action del-q :parameters (?x - t1 ?y - t1) :precondition (and) :effect (and (not (q ?x ?y))))
(:action del-r :parameters () :precondition (and) :effect (and (not (r))))
(:action set-f :parameters () :precondition (and) :effect (and (assign (f) (- (f) 1))))
(:action set-g :parameters (?x - t1) :precondition (and) :effect (and (increase (g ?x) 0.5)))
(:action set-h :parameters (?x - t1 ?y - t1) :precondition (and) :effect (and (decrease (h ?x ?y) 2)))
(:action neg-f :parameters () :precondition (and) :effect (and (assign (f) (* (f) -1))))
(:action chk-g :parameters (?x - t1) :precondition (and (<= (g ?x) 5)) :effect (and (p ?x)))
(:action maybe :parameters () :precondition (and) :effect (and (when (r) (not (r))))))
"""
OBJS = "a - t1 b - t2"   # b's own type is below the declared parameter types: builders annotate its facts differently
ATOMS_Q = [("p", "a"), ("q", "a", "b"), ("q", "a", "a"), ("r",)]
ATOMS_T = ATOMS_Q + [("p", "b")]
FL_Q = [("f",), ("h", "a", "a")]
FL_T = FL_Q + [("g", "a")]
VALUES = [None, Fraction(0), Fraction(3, 2), Fraction(-2), Fraction("0.0000123456")]
NEAR_VALUES = ["0.3", "0.30000000000000004", "1000000.0000001", "1000000.0000002"]
RULE = ("universe: quick 4 atoms x 2 fluents (each absent / 0 / 1.5 / -2 / 0.0000123456) = 400 states, thorough 5 atoms x 3 fluents = 4000, plus 8 states whose only fluent is one of "
        "0.3 / 0.30000000000000004 / 1000000.0000001 / 1000000.0000002; "
        "routes: problem parser (2 init orders), TrajectoryParser.parse_state, copy, copy of copy, successor by one action "
        "from a neighbouring state (add-fact or numeric update; delete-fact, which can leave an empty fact group); every ordered pair of states x every pair of routes "
        "compared with ==; every route object serialized and re-read; every copy mutated both ways (the changed side re-serialized); once per run: -0.0, states at the step boundaries of a parsed trajectory changed in place, states assembled through the public constructors, successors re-read after the operator was applied again, one TrajectoryParser after a rejected state, copies of literals of both signs. objects a - t1, b - t2 (t2 below t1). one case = one "
        "left-hand state. non-trivial = a pair of distinct states")
ASSUMPTIONS = ["state identity = set of ground facts + map ground fluent -> value; the ':init'/':state' tag is not part of it",
               "-0.0 (numerically equal to 0, printed differently) is explored as one extra state reached by (assign (f) (* (f) -1))"]
CASE_TIMEOUT = 300

_D = None


def D():
    global _D
    if _D is None:
        _D = parse_domain(DOM)
    return _D


def universe(tier):
    atoms = ATOMS_Q if tier == "quick" else ATOMS_T
    fls = FL_Q if tier == "quick" else FL_T
    out = []
    for mask in range(2 ** len(atoms)):
        sel = [a for i, a in enumerate(atoms) if mask >> i & 1]
        for vals in product(VALUES, repeat=len(fls)):
            out.append(RefState(sel, {k: v for k, v in zip(fls, vals) if v is not None}))
    # values one unit in the last place apart: different values, hence different states
    for sel in ([], [("r",)]):
        for v in NEAR_VALUES:
            out.append(RefState(sel, {("f",): Fraction(v)}))
    return out


def cases(tier):
    for i, s in enumerate(universe(tier)):
        yield {"index": i, "tier": tier, "state": s.to_json()}


def ptext(st: RefState, reverse=False):
    items = [f"(= ({' '.join(k)}) {fmt_num(v)})" for k, v in st.fluents.items()] + \
            [f"({' '.join(a)})" for a in sorted(st.atoms)]
    if reverse:
        items = list(reversed(items))
    return f"(define (problem p) (:domain v14) (:objects {OBJS}) (:init {' '.join(items)}) (:goal (and)))"


def _dyadic(v: Fraction) -> bool:
    return v.denominator & (v.denominator - 1) == 0


def build(st: RefState):
    """route name -> library State (or Raised)"""
    from pddl_plus_parser.multi_agent.common import create_initial_state
    from pddl_plus_parser.lisp_parsers import TrajectoryParser, PDDLTokenizer
    out = {}
    prob = parse_problem(ptext(st), D())
    out["problem"] = create_initial_state(prob)
    out["problem-reversed"] = create_initial_state(parse_problem(ptext(st, True), D()))

    def traj():
        toks = PDDLTokenizer(pddl_str=out["problem"].serialize()).parse()
        return TrajectoryParser(D(), prob).parse_state(toks[1:])
    out["trajectory-parser"] = guard(traj)

    def traj_noprob():
        toks = PDDLTokenizer(pddl_str=out["problem"].serialize()).parse()
        return TrajectoryParser(D(), None).parse_state(toks[1:])
    out["trajectory-parser-no-problem"] = guard(traj_noprob)
    out["copy"] = guard(lambda: out["problem"].copy())
    out["copy-copy"] = guard(lambda: out["problem"].copy().copy())
    # successor route
    succ = None
    if st.atoms:
        a = sorted(st.atoms)[0]
        nb = RefState(st.atoms - {a}, st.fluents)
        call = {"p": "add-p", "q": "add-q", "r": "add-r"}[a[0]]
        pr = parse_problem(ptext(nb), D())
        succ = guard(lambda: operator(D(), call, list(a[1:]), pr.objects).apply(create_initial_state(pr)))
    elif any(_dyadic(v) for v in st.fluents.values()):
        # (a numeric successor of a non-dyadic value carries float noise and is a genuinely different state)
        k = sorted(k_ for k_, v in st.fluents.items() if _dyadic(v))[0]
        delta = {"f": Fraction(1), "g": Fraction(-1, 2), "h": Fraction(2)}[k[0]]
        nb = RefState(st.atoms, {**st.fluents, k: st.fluents[k] + delta})
        call = {"f": "set-f", "g": "set-g", "h": "set-h"}[k[0]]
        pr = parse_problem(ptext(nb), D())
        succ = guard(lambda: operator(D(), call, list(k[1:]), pr.objects).apply(create_initial_state(pr)))
    if succ is not None:
        out["successor"] = succ
    # successor by a delete: the neighbour has one more fact (so a fact group may end up empty, not absent)
    extra = next((a for a in ATOMS_T if a not in st.atoms), None)
    if extra is not None:
        nb = RefState(st.atoms | {extra}, st.fluents)
        call = {"p": "del-p", "q": "del-q", "r": "del-r"}[extra[0]]
        pr = parse_problem(ptext(nb), D())
        out["successor-by-delete"] = guard(
            lambda: operator(D(), call, list(extra[1:]), pr.objects).apply(create_initial_state(pr)))
    return out


_CACHE = {}


def routes_of(tier):
    if tier not in _CACHE:
        _CACHE[tier] = [(s, build(s)) for s in universe(tier)]
    return _CACHE[tier]


def check_case(case):
    r = CaseResult()
    tier = case["tier"]
    allr = routes_of(tier)
    s1, left = allr[case["index"]]
    tags = []
    # every route object reads back as the state it was built for (serialisation is injective and faithful)
    for name, obj in left.items():
        r.count("transitions")
        if isinstance(obj, Raised):
            r.fail("route-raised", f"route {name} for {s1.to_json()} raised {obj}", "state", obj.to_json(), tags=[name])
            return r
        obs = guard(observe_state, obj)
        obs2 = guard(observe_state_dicts, obj)
        if isinstance(obs, Raised) or not same_state(obs, s1):
            r.fail("serialize", f"route {name}: serialize() of {s1.to_json()} reads back as {show(obs)}", s1.to_json(),
                   show(obs), tags=[name])
            return r
        if isinstance(obs2, Raised) or not same_state(obs2, s1):
            r.fail("public-dicts", f"route {name}: public dicts of {s1.to_json()} read as {show(obs2)}", s1.to_json(),
                   show(obs2), tags=[name])
            return r
    # copy independence, both directions; the side that is changed was serialized before the change and must print
    # its new content afterwards
    for direction in ("mutate-copy", "mutate-original"):
        base = build(s1)["problem"]
        cp = base.copy()
        victim, witness = (cp, base) if direction == "mutate-copy" else (base, cp)
        before = guard(observe_state, victim)

        def mutate():
            for fl in victim.state_fluents.values():
                fl.set_value(fl.value + 41.0)
            for key in list(victim.state_predicates):
                victim.state_predicates[key].clear()
            from pddl_plus_parser.models import PDDLFunction
            victim.state_fluents["(zz )"] = PDDLFunction(name="zz", signature={})
        m = guard(mutate)
        changed = guard(observe_state, victim)
        want_changed = RefState([], {**{k: v + 41 for k, v in s1.fluents.items()}, ("zz",): Fraction(0)})
        if isinstance(m, Raised) or isinstance(changed, Raised) or not same_state(changed, want_changed, exact=False):
            r.fail("serialize-after-change", f"{direction}: a state serialized as {show(before)}, then changed in place "
                   f"(+41 on every fluent, facts cleared, fluent (zz) added), serializes as {show(changed)}, expected "
                   f"{want_changed.to_json()}", want_changed.to_json(), show(changed), tags=[direction, "reserialize"])
            return r
        after = guard(observe_state, witness)
        r.count("transitions")
        if isinstance(after, Raised) or not same_state(after, s1):
            r.fail("copy-independence", f"{direction}: after mutating one side, the other reads {show(after)} instead of "
                   f"{s1.to_json()}", s1.to_json(), show(after), tags=[direction])
            return r
    # a copy of a state that holds an EMPTY fact group (reached by deleting the last fact of a predicate): adding a
    # fact to the copy must not add it to the original, and vice versa
    src = left.get("successor-by-delete")
    if src is not None and not isinstance(src, Raised):
        from pddl_plus_parser.models import GroundedPredicate
        for direction in ("add-to-copy", "add-to-original"):
            base = build(s1)["successor-by-delete"]
            cp = base.copy()
            victim, witness = (cp, base) if direction == "add-to-copy" else (base, cp)

            def add_facts():
                for key, group in list(victim.state_predicates.items()):
                    name = sexp.read(key)[0]
                    lifted = D().predicates[name]
                    args = ["b"] * len(lifted.signature)
                    group.add(GroundedPredicate(name, lifted.signature, dict(zip(lifted.signature, args))))
            guard(add_facts)
            after = guard(observe_state, witness)
            r.count("transitions")
            if isinstance(after, Raised) or not same_state(after, s1):
                r.fail("copy-independence", f"{direction} on a state with an empty fact group: the other side reads "
                       f"{show(after)} instead of {s1.to_json()}", s1.to_json(), show(after), tags=[direction, "empty-group"])
                return r
    # all ordered pairs (s1, s2) x all route pairs
    for s2, right in allr:
        want = s1 == s2
        if not want:
            r.nontrivial = True
        r.seen("states", digest((s1.key(), s2.key())))
        for n1, o1 in left.items():
            for n2, o2 in right.items():
                if isinstance(o2, Raised):
                    continue
                got = guard(lambda: o1 == o2)
                r.count("transitions")
                if got is not want:
                    r.outcome("eq-wrong")
                    r.fail("equality", f"({n1}) {s1.to_json()} == ({n2}) {s2.to_json()} gives {got}, expected {want}",
                           want, str(got), tags=[n1, n2])
                    return r
    r.outcome("ok")
    if case["index"] == 0:
        negzero(r)
        trajectory_independence(r)
        constructed_route(r)
        successors_keep_their_value(r)
        inputs_are_left_alone(r)
        parser_after_a_rejected_state(r)
    return r


def successors_keep_their_value(r):
    """a successor handed out by an operator is a value of its own: applying the same operator again (to that successor
    or to another state) leaves it equal to the copy taken when it was produced"""
    from pddl_plus_parser.multi_agent.common import create_initial_state
    s = RefState([("p", "a")], {("f",): Fraction(1), ("g", "a"): Fraction(0), ("h", "a", "a"): Fraction(4)})
    for call, args in (("set-g", ["a"]), ("set-h", ["a", "a"]), ("set-f", []), ("add-q", ["a", "b"])):
        prob = parse_problem(ptext(s), D())
        s0 = create_initial_state(prob)

        def run():
            op = operator(D(), call, args, prob.objects)
            s1 = op.apply(s0)
            kept, seen = s1.copy(), observe_state(s1)
            s2 = op.apply(s1)
            after_second = (kept == s1 and s1 == kept, observe_state(s1))
            s3 = op.apply(s2)
            ok = after_second[0] and kept == s1 and same_state(after_second[1], observe_state(s1))
            return ok, seen, after_second[1], observe_state(s2)
        got = guard(run)
        r.count("transitions", 3)
        if isinstance(got, Raised) or got[0] is not True or not same_state(got[1], got[2]):
            r.fail("copy-independence", f"({call} {' '.join(args)}) applied by one operator to {s.to_json()}, to its successor and "
                   f"to the first state again: the first successor read {show(got[1]) if not isinstance(got, Raised) else got} "
                   f"when produced and reads {show(got[2]) if not isinstance(got, Raised) else ''} afterwards; == with the copy "
                   f"taken then: {got[0] if not isinstance(got, Raised) else ''}", "unchanged", str(got)[:200],
                   tags=["successor-aliasing", call])
            return


def inputs_are_left_alone(r):
    """the state handed to is_applicable / apply is the caller's: afterwards it equals the copy taken before (also when
    the action reads or writes a fluent the state does not define), and what apply returns is another object, tagged
    as a successor, even when no effect fires"""
    from pddl_plus_parser.multi_agent.common import create_initial_state
    for s, call, args in ((RefState([("p", "a")], {("f",): Fraction(1)}), "chk-g", ["a"]),      # (g a) undefined
                          (RefState([("p", "a")], {("f",): Fraction(1)}), "set-g", ["a"]),
                          (RefState([("p", "a")], {("f",): Fraction(1), ("g", "a"): Fraction(2)}), "maybe", []),   # nothing fires
                          (RefState([("r",)], {("f",): Fraction(1)}), "maybe", [])):
        prob = parse_problem(ptext(s), D())
        s0 = create_initial_state(prob)
        kept = s0.copy()
        before = observe_state(s0)

        def run():
            op = operator(D(), call, args, prob.objects)
            ok = op.is_applicable(s0)
            s1 = op.apply(s0, allow_inapplicable_actions=True)
            same_object = s1 is s0
            tag = s1.serialize()[:7]
            for fl in s1.state_fluents.values():
                fl.set_value(fl.value + 7.0)
            for key in list(s1.state_predicates):
                s1.state_predicates[key].clear()
            return same_object, tag
        got = guard(run)
        after = guard(observe_state, s0)
        r.count("transitions", 2)
        eq = guard(lambda: s0 == kept and kept == s0)
        if isinstance(got, Raised) or isinstance(after, Raised) or not same_state(after, before) or eq is not True \
                or got[0] or ":state" not in got[1] or set(s0.state_fluents) != set(kept.state_fluents):
            r.fail("copy-independence", f"({call} {' '.join(args)}) queried and applied on {s.to_json()}, the returned state then "
                   f"changed in place: the input state reads {show(after)} (== its earlier copy: {eq}; fluent keys "
                   f"{sorted(s0.state_fluents)} vs {sorted(kept.state_fluents)}); returned object is the input: "
                   f"{got[0] if not isinstance(got, Raised) else got}, tagged {got[1] if not isinstance(got, Raised) else ''}",
                   before.to_json(), show(after), tags=["input-left-alone", call])
            return


def parser_after_a_rejected_state(r):
    """one TrajectoryParser: a state text that is rejected after some of its components were read (the caller catches
    the error), then a valid state - which reads as exactly what its text says"""
    from pddl_plus_parser.lisp_parsers import TrajectoryParser, PDDLTokenizer
    good = RefState([("q", "a", "b"), ("r",)], {("f",): Fraction(3, 2), ("g", "b"): Fraction(-2)})
    prob = parse_problem(ptext(good), D())
    good_text = "(:state (q a b) (r) (= (f) 1.5) (= (g b) -2))"
    bads = ["(:state (p a) (= (h a a) 7) (zz a))", "(:state (p b) (q a a) (= (g a) 1) (= (nofluent) 2))",
            "(:state (p a) (q a))"]
    for mode, pm in (("with-problem", prob), ("objects-deduced", None)):
        for bad in bads:
            def run():
                tp = TrajectoryParser(D(), pm)
                first = guard(lambda: tp.parse_state(PDDLTokenizer(pddl_str=bad).parse()[1:]))
                st = tp.parse_state(PDDLTokenizer(pddl_str=good_text).parse()[1:])
                return isinstance(first, Raised), observe_state(st)
            got = guard(run)
            r.count("transitions", 2)
            if isinstance(got, Raised) or not same_state(got[1], good):
                r.fail("serialize", f"[{mode}] one TrajectoryParser first given {bad} (rejected: "
                       f"{got[0] if not isinstance(got, Raised) else got}), then {good_text}: the second state reads "
                       f"{show(got[1]) if not isinstance(got, Raised) else got}", good.to_json(), str(got)[:300],
                       tags=["parser-error-path", mode])
                return


def trajectory_independence(r):
    """the states a parsed trajectory hands out (post-state of step i, pre-state of step i+1: equal states) are
    independent objects: changing one in place leaves the other as it was"""
    from pddl_plus_parser.exporters import TrajectoryExporter
    from pddl_plus_parser.lisp_parsers import TrajectoryParser
    from ..bridge import write_tmp
    s = RefState([("p", "a")], {("f",): Fraction(1), ("h", "a", "a"): Fraction(0)})
    prob = parse_problem(ptext(s), D())
    tr = guard(lambda: TrajectoryExporter(D()).parse_plan(prob, action_sequence=["(add-r )", "(set-f )", "(add-q a b)"]))
    if isinstance(tr, Raised):
        return
    path = write_tmp("".join(TrajectoryExporter.export(tr)), ".trajectory")
    want_states = [observe_state(tr[0].previous_state)] + [observe_state(t.next_state) for t in tr]
    for mode, pm in (("with-problem", prob), ("objects-deduced", None)):
        for i in range(2):
            for direction in ("post-state", "pre-state"):
                obs = guard(lambda: TrajectoryParser(D(), pm).parse_trajectory(path))
                if isinstance(obs, Raised):
                    return
                a, b = obs.components[i].next_state, obs.components[i + 1].previous_state
                victim, witness = (a, b) if direction == "post-state" else (b, a)
                before = guard(observe_state, witness)

                def mutate():
                    for fl in victim.state_fluents.values():
                        fl.set_value(fl.value + 41.0)
                    for key in list(victim.state_predicates):
                        victim.state_predicates[key].clear()
                guard(mutate)
                after = guard(observe_state, witness)
                r.count("transitions")
                # ... and every other state the same parse handed out (states of other steps in which a fluent has the
                # same value) reads as before as well
                for k, c in enumerate(obs.components):
                    for side, st in (("pre", c.previous_state), ("post", c.next_state)):
                        if st is victim:
                            continue
                        idx = k if side == "pre" else k + 1
                        was = want_states[idx]
                        now = guard(observe_state, st)
                        if not (idx in (i + 1,)) and (isinstance(now, Raised) or not same_state(now, was)):
                            r.fail("copy-independence", f"[{mode}] parsed trajectory: after changing the {direction} at the "
                                   f"boundary of steps {i}/{i + 1} in place, the {side}-state of step {k} reads {show(now)} "
                                   f"instead of {was.to_json()}", was.to_json(), show(now),
                                   tags=["trajectory-boundary", "other-steps", mode])
                            return
                if isinstance(before, Raised) or isinstance(after, Raised) or not same_state(before, after):
                    r.fail("copy-independence", f"[{mode}] parsed trajectory: after changing the {direction} at the boundary "
                           f"of steps {i}/{i + 1} in place, the equal state on the other side of the boundary reads "
                           f"{show(after)} instead of {show(before)}", show(before), show(after),
                           tags=["trajectory-boundary", direction, mode])
                    return


def constructed_route(r):
    """states assembled through the public constructors (PDDLFunction / GroundedPredicate / State): a fluent whose
    arguments repeat an object, then - in the same process - fluents and facts of other states; each serializes as
    what it was built from"""
    from pddl_plus_parser.models import PDDLFunction, GroundedPredicate, State
    t1 = D().types["t1"]
    # the copy of a literal is the same literal (sign included)
    lifted = D().predicates["p"]
    for positive in (True, False):
        g = GroundedPredicate("p", lifted.signature, {"?a": "a"}, is_positive=positive)
        c = guard(lambda: g.copy())
        r.count("transitions")
        if isinstance(c, Raised) or c.is_positive is not positive or c.untyped_representation != g.untyped_representation:
            r.fail("copy-independence", f"GroundedPredicate.copy() of {g.untyped_representation} gives "
                   f"{c if isinstance(c, Raised) else c.untyped_representation}", g.untyped_representation, str(c)[:100],
                   tags=["literal-copy"])
            return

    def build(fluents, atoms, masked=()):
        fl = {}
        for name, args, val in fluents:
            sig = {x: t1 for x in args}
            f = PDDLFunction(name=name, signature=sig, arguments=list(args)) if len(set(args)) < len(args) \
                else PDDLFunction(name=name, signature=sig)
            f.set_value(val)
            fl[f.untyped_representation] = f
        preds = {}
        for a in atoms:
            lifted = D().predicates[a[0]]
            g = GroundedPredicate(a[0], lifted.signature, dict(zip(lifted.signature, a[1:])), is_masked=a in masked) \
                if a in masked else GroundedPredicate(a[0], lifted.signature, dict(zip(lifted.signature, a[1:])))
            preds.setdefault(lifted.untyped_representation, set()).add(g)
        return State(preds, fl, is_init=False)
    specs = [([("h", ("a", "a"), 2.0), ("f", (), 1.0)], [("p", "a")]),
             ([("g", ("b",), 3.0), ("f", (), 0.5)], [("q", "a", "b"), ("r",)]),
             ([("h", ("a", "b"), 1.5), ("g", ("a",), -2.0)], [("q", "a", "a")]),
             ([("h", ("b", "b"), 4.0)], []), ([("g", ("a",), 1.0), ("h", ("b", "a"), 7.0)], [("p", "b")])]
    for fluents, atoms in specs:
        want = RefState(atoms, {(n,) + tuple(a): Fraction(v) for n, a, v in fluents})
        st = guard(build, fluents, atoms)
        obs = guard(observe_state, st) if not isinstance(st, Raised) else st
        r.count("transitions")
        if isinstance(obs, Raised) or not same_state(obs, want):
            r.fail("serialize", f"route constructed: a state assembled from {fluents} / {atoms} through the public "
                   f"constructors serializes as {show(obs)}", want.to_json(), show(obs), tags=["constructed"])
            return
        cp = guard(lambda: observe_state(st.copy()))
        if isinstance(cp, Raised) or not same_state(cp, want):
            r.fail("serialize", f"route constructed: the copy of a state assembled from {fluents} / {atoms} serializes as "
                   f"{show(cp)}", want.to_json(), show(cp), tags=["constructed", "copy"])
            return
        # the optional constructor flag is_masked (an annotation for learners) is not part of a fact's identity: a
        # state holding flagged facts is the same value - equal, and serialized / typed-serialized / copied alike
        for k in range(1, len(atoms) + 1):
            msk = guard(build, fluents, atoms, tuple(atoms[:k]))
            r.count("transitions")
            res = guard(lambda: [msk == st, st == msk, observe_state(msk), observe_state(msk.copy()),
                                 sorted(sexp.dumps(x) for x in sexp.read(msk.typed_serialize())[1:]),
                                 sorted(sexp.dumps(x) for x in sexp.read(st.typed_serialize())[1:])])
            if isinstance(msk, Raised) or isinstance(res, Raised) or res[0] is not True or res[1] is not True \
                    or not same_state(res[2], want) or not same_state(res[3], want) or res[4] != res[5]:
                r.fail("serialize", f"route constructed: {atoms[:k]} of {atoms} built with is_masked=True: == plain state "
                       f"{res if isinstance(res, Raised) else res[:2]}, serialize {'' if isinstance(res, Raised) else show(res[2])}, copy "
                       f"{'' if isinstance(res, Raised) else show(res[3])}, typed {'' if isinstance(res, Raised) else res[4]}; expected "
                       f"equal and {want.to_json()}", want.to_json(), str(res)[:300], tags=["constructed", "masked"])
                return


def negzero(r):
    """-0.0 reached by (assign (f) (* (f) -1)) from 0: numerically the value 0."""
    from pddl_plus_parser.multi_agent.common import create_initial_state
    z = RefState([], {("f",): Fraction(0)})
    pr = parse_problem(ptext(z), D())
    s0 = create_initial_state(pr)
    s1 = guard(lambda: operator(D(), "neg-f", [], pr.objects).apply(s0))
    if isinstance(s1, Raised):
        return
    eq = guard(lambda: s1 == s0)
    obs = guard(observe_state, s1)
    if eq is not True or isinstance(obs, Raised) or not same_state(obs, z):
        r.fail("negative-zero", f"state with f = -0.0 (from (assign (f) (* (f) -1)) at f = 0): == state with f = 0 gives {eq}; "
               f"reads back as {show(obs)}", True, str(eq), tags=["negative-zero"])


def _negzero(case, fail):
    return fail["clause"] == "negative-zero"


MATCHERS = {"negative_zero": _negzero}
