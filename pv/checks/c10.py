"""C10 — a serialized trajectory parses back to the same states and actions.

Space: every trajectory produced from the C04 exploration (all plans up to length L over the three
mini-domains: zero-arity atoms, repeated-argument fluents, negative/fractional values, empty states,
inapplicable steps), joint-action trajectories with nop entries at every position, and the trajectory
files shipped with the repository; parsed back with the problem's object table and with objects deduced
from the first state.
Oracle: one component per action; same action names / arguments; each parsed state equals the exported
triplet's state (library == and independent reading of the text); components chain.
"""
import glob
import os

from .. import sexp
from ..bridge import guard, Raised, parse_domain, parse_problem, observe_state, write_tmp, REPO
from ..core import same_state as _same_state, show


def same_state(a, b):
    """fluent values at 1e-9 relative tolerance: the mini-domains contain non-dyadic increments (0.00001)"""
    return _same_state(a, b, exact=False)

from ..gens import minidoms as md
from ..refsem import RefState, non_interfering, applicable
from ..runner import CaseResult, digest
from .c04 import World, line, LEN
from .c08 import shipped_domains

ID = "C10"
RULE = ("all plans over the calls of strips / numeric / cond mini-domains up to length L (quick 3,3,2; thorough 4,4,3) -> "
        "TrajectoryExporter.parse_plan + export -> file -> TrajectoryParser with problem and with problem=None; joint "
        "trajectories: all sequences of <= 2 joint actions over 2 agents (one call or nop per agent, members applicable "
        "and non-interfering by the reference) through MultiAgentTrajectoryExporter + TrajectoryParser(executing_agents); "
        "one-agent teams; all-idle steps; a plan naming an unknown action before every plan on the long-lived exporter; object-less trajectories (3 problems x 4 plans); shipped *.trajectory files parsed with every shipped domain that accepts them. non-trivial = a trajectory "
        "with >= 2 steps")
ASSUMPTIONS = ["states are compared as sets of facts and fluent->value maps; the ':init' / ':state' tag is not part of the value",
               "with problem=None types are those of the lifted signature (documented by the library), names/values still compared"]
CASE_TIMEOUT = 300
L10 = {"quick": {"strips": 3, "numeric": 3, "cond": 2}, "thorough": {"strips": 4, "numeric": 4, "cond": 3}}


def cases(tier):
    for name in md.ALL:
        d, p = md.ref(name)
        calls = md.all_calls(d, d.all_objects(p.objects))
        L = L10[tier][name]
        yield {"kind": "single", "domain": name, "prefix": [], "length": 0}
        for c1 in calls:
            yield {"kind": "single", "domain": name, "prefix": [[c1[0], *c1[1]]], "length": L}
    yield {"kind": "joint", "domain": "strips"}
    yield {"kind": "joint", "domain": "numeric"}
    yield {"kind": "objectless"}
    from ..gens import wide
    for k in wide.SHIFTS:
        yield {"kind": "wide", "shift": k}
    for p in sorted(glob.glob(os.path.join(REPO, "tests", "**", "*trajectory*"), recursive=True)):
        if os.path.isfile(p) and not p.endswith(".py"):
            yield {"kind": "shipped", "file": os.path.relpath(p, REPO)}


_W = {}


def world(name):
    if name not in _W:
        _W[name] = World(name)
        _W[name].name = name
    return _W[name]


def compare_observation(r, obs, actions, states, label, tags, joint=False):
    """actions: list of expected action token lists (or list of lists for joint); states: list of RefState (n+1)."""
    if isinstance(obs, Raised):
        r.fail("parse-raised", f"{label}: trajectory does not parse back: {obs}", "observation", obs.to_json(), tags=tags)
        return False
    comps = obs.components
    if len(comps) != len(actions):
        r.fail("component-count", f"{label}: {len(comps)} components for {len(actions)} actions", len(actions), len(comps),
               tags=tags)
        return False
    for i, c in enumerate(comps):
        r.count("transitions")
        if joint:
            got = guard(lambda: [[a.name] + list(a.parameters) for a in c.grounded_joint_action.actions])
        else:
            got = guard(lambda: [c.grounded_action_call.name] + list(c.grounded_action_call.parameters))
        if isinstance(got, Raised):
            got = f"unreadable: {got}"
        if got != actions[i]:
            r.fail("action", f"{label} step {i}: parsed action {got}, expected {actions[i]}", actions[i], got, tags=tags)
            return False
        pre = guard(observe_state, c.previous_state)
        post = guard(observe_state, c.next_state)
        if isinstance(pre, Raised) or isinstance(post, Raised) or not same_state(pre, states[i]) \
                or not same_state(post, states[i + 1]):
            r.fail("state", f"{label} step {i}: parsed states {show(pre)} -> {show(post)}, exported "
                   f"{states[i].to_json()} -> {states[i + 1].to_json()}", states[i + 1].to_json(), show(post), tags=tags)
            return False
        if i > 0:
            eq = guard(lambda: comps[i].previous_state == comps[i - 1].next_state)
            if eq is not True:
                r.fail("chain", f"{label} step {i}: pre-state != previous post-state ({eq})", True, str(eq), tags=tags)
                return False
    return True


def check_single(r, case):
    from pddl_plus_parser.exporters import TrajectoryExporter
    from pddl_plus_parser.lisp_parsers import TrajectoryParser
    w = world(case["domain"])
    prefix = [list(s) for s in case["prefix"]]
    rest = max(0, case["length"] - len(prefix)) if prefix else 0
    tags = [case["domain"]]
    for tail in md.plans([[c[0], *c[1]] for c in w.calls], rest):
        plan = prefix + [list(s) for s in tail]
        if not plan:
            continue
        lines = [line(s) for s in plan]
        exp = w.__dict__.setdefault("_c10_exporter", TrajectoryExporter(w.D))  # one long-lived exporter per domain
        # the error path first: the same exporter is given a plan whose second line names no action of the domain; the
        # caller catches the error and goes on with the real plan
        guard(lambda: exp.parse_plan(w.P, action_sequence=[lines[0], "(no-such-action a)"]))
        tr = guard(lambda: exp.parse_plan(w.P, action_sequence=list(lines)))
        if isinstance(tr, Raised):
            r.outcome("skip-plan-raised (C04's business)")
            continue
        states = guard(lambda: [observe_state(tr[0].previous_state)] + [observe_state(t.next_state) for t in tr])
        if len(tr) >= 2:
            # the tail of the trajectory is exported first (exporting must not change the triplets it is given)
            guard(lambda: "".join(TrajectoryExporter.export(tr[1:])))
        text = guard(lambda: "".join(TrajectoryExporter.export(tr)))
        if isinstance(states, Raised) or isinstance(text, Raised):
            r.outcome("skip-export-raised (C04's business)")
            continue
        if not file_holds(r, exp, tr, text, f"plan {plan}", tags):
            return
        r.count("histories")
        r.seen("states", digest(text))
        if len(plan) >= 2:
            r.nontrivial = True
        # library == between exported triplet states and parsed states is checked through RefState equality of both
        path = write_tmp(text, ".trajectory")
        actions = [[x.lower() for x in s] for s in plan]
        for mode, prob in (("with-problem", w.P), ("objects-deduced", None)):
            obs = guard(lambda: TrajectoryParser(w.D, prob).parse_trajectory(path))
            if not compare_observation(r, obs, actions, states, f"[{mode}] plan {plan}", tags + [mode]):
                return
            # the library's own equality between the exporter's states and the parsed ones
            for i, c in enumerate(obs.components):
                eq = guard(lambda: c.next_state == tr[i].next_state and tr[i].next_state == c.next_state)
                if eq is not True:
                    r.fail("state-eq", f"[{mode}] plan {plan} step {i}: parsed state == exported state gives {eq}; "
                           f"parsed {show(guard(observe_state, c.next_state))}", True, str(eq), tags=tags + [mode])
                    return
        r.outcome("roundtrip-ok")


def check_joint(r, case):
    from pddl_plus_parser.multi_agent import MultiAgentTrajectoryExporter
    from pddl_plus_parser.lisp_parsers import TrajectoryParser
    w = world(case["domain"])
    agents = ["a", "b"]
    per_agent = {ag: [None] + [c for c in w.calls if c[1] and c[1][0] == ag] for ag in agents}
    per_agent["a"] = per_agent["a"] + [c for c in w.calls if not c[1]]   # parameterless actions go into the first slot
    tags = [case["domain"], "joint"]

    def joint_steps(st):
        out = []
        for c1 in per_agent["a"]:
            for c2 in per_agent["b"]:
                members = [c for c in (c1, c2) if c is not None]
                if not members:
                    out.append(((None, None), st))  # both agents idle: a step that changes nothing
                    continue
                try:
                    if not all(applicable(w.S, w.S.actions[n], a, st, w.objs) for n, a in members):
                        continue
                    nxt = non_interfering(w.S, members, st, w.objs)
                except Exception:
                    continue
                if nxt is not None:
                    out.append(((c1, c2), nxt))
        return out

    def render(j):
        return "[" + ",".join("(nop )" if c is None else line([c[0], *c[1]]) for c in j) + "]"

    plans = []
    for j1, s1 in joint_steps(w.init):
        plans.append(([j1], [w.init, s1]))
        for j2, s2 in joint_steps(s1):
            plans.append(([j1, j2], [w.init, s1, s2]))
    # a team of ONE agent: every joint action has a single slot
    solo = []
    for c1 in per_agent["a"]:
        try:
            if c1 is None:
                solo.append((((None,), w.init)))
            elif applicable(w.S, w.S.actions[c1[0]], c1[1], w.init, w.objs):
                nxt = non_interfering(w.S, [c1], w.init, w.objs)
                if nxt is not None:
                    solo.append(((c1,), nxt))
        except Exception:
            continue
    for j1, s1 in solo:
        plans.append(([j1], [w.init, s1]))
        for j2, s2 in solo[:3]:
            if j2[0] is None:
                plans.append(([j1, j2], [w.init, s1, s1]))
    for joint_plan, ref_states in plans:
        agents = ["a", "b"] if len(joint_plan[0]) == 2 else ["a"]
        lines = [render(j) for j in joint_plan]
        exp = w.__dict__.setdefault("_c10_ma_exporter", MultiAgentTrajectoryExporter(w.D))  # long-lived
        tr = guard(lambda: exp.parse_plan(w.P, action_sequence=list(lines)))
        if isinstance(tr, Raised):
            r.outcome("skip-joint-plan-raised (C16's business)")
            continue
        states = guard(lambda: [observe_state(tr[0].previous_state)] + [observe_state(t.next_state) for t in tr])
        text = guard(lambda: "".join(exp.export(tr)))
        if isinstance(states, Raised) or isinstance(text, Raised):
            r.outcome("skip-joint-export-raised (C16's business)")
            continue
        r.count("histories")
        r.nontrivial = True
        path = write_tmp(text, ".trajectory")
        actions = [[["nop"] if c is None else [c[0], *c[1]] for c in j] for j in joint_plan]
        for mode, prob in (("with-problem", w.P), ("objects-deduced", None)):
            obs = guard(lambda: TrajectoryParser(w.D, prob).parse_trajectory(path, executing_agents=agents))
            if not compare_observation(r, obs, actions, states, f"[{mode}] joint plan {lines}", tags + [mode], joint=True):
                return
        r.outcome("joint-roundtrip-ok")


_DOMS = None


def check_shipped(r, case):
    from pddl_plus_parser.lisp_parsers import TrajectoryParser
    global _DOMS
    if _DOMS is None:
        _DOMS = []
        seen = set()
        for rel in shipped_domains():
            txt = open(os.path.join(REPO, rel), encoding="utf-8").read()
            if txt in seen:
                continue
            seen.add(txt)
            for kw in ({}, {"partial_parsing": True}):
                D = guard(parse_domain, txt, **kw)
                if not isinstance(D, Raised):
                    _DOMS.append((rel, D))
                    break
    path = os.path.join(REPO, case["file"])
    try:
        tree = sexp.read(open(path, encoding="utf-8").read())
    except Exception:
        r.skipped = "not a readable trajectory file"
        return
    if not tree or not isinstance(tree[0], list) or tree[0][:1] not in ([":init"], [":state"]):
        r.skipped = "not a trajectory"
        return
    n_ok = 0
    for rel, D in _DOMS:
        joint = any(isinstance(x, list) and x[:1] == ["operators:"] for x in tree)
        agents = None
        if joint:
            k = max(len(x) - 1 for x in tree if isinstance(x, list) and x[:1] == ["operators:"])
            agents = [f"agent{i}" for i in range(k)]
        obs = guard(lambda: TrajectoryParser(D).parse_trajectory(path, executing_agents=agents))
        if isinstance(obs, Raised):
            continue
        n_ok += 1
        r.nontrivial = True
        r.count("histories")
        states = [RefState.from_state_tree(x) for x in tree[0::2]]
        if joint:
            actions = [[[a[0]] + ([] if a[0] == "nop" else a[1:]) for a in x[1:]] for x in tree[1::2]]
        else:
            actions = [x[1] for x in tree[1::2]]
        if not compare_observation(r, obs, actions, states, f"{case['file']} with {rel}", ["shipped"], joint=joint):
            return
    r.outcome(f"shipped-parsed-by-{min(n_ok, 1)}-domains")


OBJECTLESS_DOMAIN = """(define (domain z1)
(:requirements :typing :negative-preconditions :numeric-fluents)
(:types t1 - object)
(:predicates (r) (s) (p ?a - t1))
(:functions (f))
(:action tg :parameters () :precondition (and (r)) :effect (and (not (r)) (s) (increase (f) 1.5)))
(:action back :parameters () :precondition (and (s)) :effect (and (r) (not (s))))
(:action put :parameters (?x - t1) :precondition (and) :effect (and (p ?x))))
"""
OBJECTLESS_PROBLEMS = ["(define (problem z1p) (:domain z1) (:objects a - t1) (:init (r) (= (f) -2)) (:goal (and (s))))",
                       "(define (problem z1q) (:domain z1) (:objects) (:init (= (f) 0)) (:goal (and)))",
                       "(define (problem z1e) (:domain z1) (:objects a - t1) (:init) (:goal (and (r))))"]


def check_objectless(r, case):
    """trajectories whose states mention no object at all (only parameterless atoms and fluents, or nothing): they
    parse back with the problem's object table and with objects deduced from the first state alike"""
    from pddl_plus_parser.exporters import TrajectoryExporter
    from pddl_plus_parser.lisp_parsers import TrajectoryParser
    from ..refsem import RefDomain, RefProblem
    r.nontrivial = True
    D = parse_domain(OBJECTLESS_DOMAIN)
    S = RefDomain.from_tree(sexp.read(OBJECTLESS_DOMAIN))
    for ptxt in OBJECTLESS_PROBLEMS:
        P = parse_problem(ptxt, D)
        RP = RefProblem.from_tree(sexp.read(ptxt))
        objs = S.all_objects(RP.objects)
        for plan in ([["tg"]], [["tg"], ["back"]], [["back"]], [["tg"], ["tg"], ["back"]]):
            lines = [line(s) for s in plan]
            tr = guard(lambda: TrajectoryExporter(D).parse_plan(P, action_sequence=list(lines)))
            if isinstance(tr, Raised):
                r.outcome("skip-plan-raised (C04's business)")
                continue
            states = guard(lambda: [observe_state(tr[0].previous_state)] + [observe_state(t.next_state) for t in tr])
            text = guard(lambda: "".join(TrajectoryExporter.export(tr)))
            if isinstance(states, Raised) or isinstance(text, Raised):
                continue
            path = write_tmp(text, ".trajectory")
            r.count("histories")
            for mode, prob in (("with-problem", P), ("objects-deduced", None)):
                obs = guard(lambda: TrajectoryParser(D, prob).parse_trajectory(path))
                if not compare_observation(r, obs, [[x.lower() for x in s] for s in plan], states,
                                           f"[{mode}] object-less trajectory {plan} of {ptxt[17:21]}", ["objectless", mode]):
                    return
            r.outcome("roundtrip-ok")


def file_holds(r, exp, tr, text, label, tags):
    """export_to_file writes what export returns: the file reads as the same nested lists"""
    from ..bridge import scratch_dir
    target = os.path.join(scratch_dir(), f"c10_{os.getpid()}.trajectory_file")
    res = guard(lambda: exp.export_to_file(tr, target))
    got = guard(lambda: sexp.read(open(target, encoding="utf-8").read())) if not isinstance(res, Raised) else res
    r.count("transitions")
    if isinstance(got, Raised) or got != sexp.read(text):
        r.fail("file-export", f"{label}: export_to_file wrote {str(got)[:400]}; export() returns {text[:400]}", text[:300],
               str(got)[:300], tags=tags + ["export-to-file"])
        return False
    return True


def check_wide(r, case):
    """long hyphenated names, states several hundred characters wide, written through export_to_file and parsed back"""
    from pddl_plus_parser.exporters import TrajectoryExporter
    from pddl_plus_parser.lisp_parsers import TrajectoryParser
    from ..gens import wide
    from ..bridge import scratch_dir
    r.nontrivial = True
    D = parse_domain(wide.DOMAIN)
    P = parse_problem(wide.problem(case["shift"]), D)
    for plan in wide.plans(case["shift"]):
        exp = TrajectoryExporter(D)
        tr = guard(lambda: exp.parse_plan(P, action_sequence=[line(s) for s in plan]))
        states = guard(lambda: [observe_state(tr[0].previous_state)] + [observe_state(t.next_state) for t in tr]) \
            if not isinstance(tr, Raised) else tr
        text = guard(lambda: "".join(exp.export(tr))) if not isinstance(states, Raised) else states
        if isinstance(text, Raised):
            r.fail("parse-raised", f"wide plan {plan}: building / exporting the trajectory raised {text}", "trajectory", str(text),
                   tags=["wide"])
            return
        r.count("histories")
        r.seen("states", digest(text))
        if not file_holds(r, exp, tr, text, f"wide plan {plan}", ["wide"]):
            return
        target = os.path.join(scratch_dir(), f"c10_{os.getpid()}.trajectory_file")
        for mode, prob in (("with-problem", P), ("objects-deduced", None)):
            obs = guard(lambda: TrajectoryParser(D, prob).parse_trajectory(target))
            if not compare_observation(r, obs, [[x.lower() for x in s] for s in plan], states, f"[{mode}, export_to_file] wide plan {plan}",
                                       ["wide", mode]):
                return
    r.outcome("roundtrip-ok")


def check_case(case):
    r = CaseResult()
    if case["kind"] == "wide":
        check_wide(r, case)
        return r
    if case["kind"] == "objectless":
        check_objectless(r, case)
        return r
    {"single": check_single, "joint": check_joint, "shipped": check_shipped}[case["kind"]](r, case)
    return r
