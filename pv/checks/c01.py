"""C01 — domain text is parsed faithfully or rejected, never silently altered.

Space: the in-fragment V-domain corpus and a table of out-of-fragment forms, declaration-level
variants (grouped / untyped / trailing typed lists, section order), each in 4 layouts.
Oracle: (1) vocabulary of the returned Domain == the source's; (2) for every (state, call) of the
program's universe the implementation's applicability / successor equals the reference reading of
the source text — attributed to C01 only where the reading of what the parser produced (abs) also
differs from the source (or is unavailable); (3) an exception is acceptable for out-of-fragment forms
only (at parse, or when first grounded / evaluated), and is a violation at parse time for in-fragment
text.
"""
from ..bridge import guard, Raised, observe_state
from ..core import (Prog, ref_applicable, ref_successor, UNDEF, ILL, INCONS, same_state, show)
from ..gens import vdom
from ..refsem import RefState, mentioned
from ..runner import CaseResult, digest
from .. import sexp

ID = "C01"
RULE = ("in-fragment: every precondition / effect instance of the bounded grammar (as C02/C03, quick alphabets) with "
        "6 parameter profiles; out-of-fragment: bare literal, top-level not/or, imply, exists, unknown node between "
        "literals, not-and, forall with a literal body, n-ary arithmetic, undeclared predicate, repeated-argument atom, "
        "either, nested and / forall-without-when / when-forall / when-or effects, scale-up/down; declaration variants "
        "(grouped, trailing-untyped, multi-type typed lists in :predicates/:functions/:constants/:parameters, section "
        "order); each text in 4 layouts (canonical, upper case, one token per line with comments, tabs+CRLF); "
        "every type-correct call x every state of the relevant universe. non-trivial = a program whose action "
        "has a non-constant applicability table or changes some state")
ASSUMPTIONS = ["the text is the specification; pv.sexp + pv.refsem read it independently of the library",
               "no particular exception type is demanded",
               "pv.absmap is used only to attribute a behavioural disagreement, never as grounds for one"]
CASE_TIMEOUT = 120

OUT_PRE = [
    ("(p ?x)", "bare-literal"), ("(not (p ?x))", "top-not"), ("(r)", "bare-literal"), ("(not (r))", "top-not"),
    ("(>= (g ?x) 1)", "bare-literal"), ("(= ?x ?y)", "bare-literal"), ("(not (= ?x ?y))", "top-not"), ("(or (p ?x) (r))", "top-or"),
    ("(and (imply (p ?x) (r)))", "imply"), ("(and (exists (?z - t1) (p ?z)))", "exists"),
    ("(and (p ?x) (imply (r) (p ?y)) (q ?x ?y))", "unknown-between"),
    ("(and (p ?x) (exists (?z - t1) (q ?x ?z)) (not (r)))", "unknown-between"),
    ("(and (not (and (p ?x) (r))))", "not-and"), ("(and (forall (?z - t1) (p ?z)))", "forall-literal-body"),
    ("(and (> (+ (f) (g ?x) (g ?y)) 1))", "nary-arith"), ("(and (>= (- (f) (g ?x) 1) 0))", "nary-arith"),
    ("(and (< (/ (f) 2 5) (g ?y)))", "nary-arith"), ("(and (>= (- (f) (g ?x) (g ?y) 1) 0) (p ?x))", "nary-arith"), ("(and (>= (* (f) 2 (g ?x)) 1))", "nary-arith"),
    ("(and (zz ?x))", "undeclared-predicate"), ("(and (p ?x) (zz ?x) (r))", "undeclared-predicate"),
    ("(and (q ?x ?x))", "repeated-arg"), ("(and (not (q ?y ?y)) (p ?x))", "repeated-arg"),
    ("(and (>= (h ?x ?x) 1))", "repeated-arg-fluent"),
    ("(and (not (or (p ?x) (r))))", "not-or"), ("(and (= (g ?x) (g ?y)))", "numeric-equality"),
    ("(and (r) (not (not (p ?x))))", "double-not"),
    ("(forall (?z - t1) (and (p ?z)))", "top-forall"),
    ("(and (>= (- (g ?x)) -1))", "unary-minus"),
    ("(and (not (>= (g ?x) 1)))", "not-comparison"), ("(and (p ?x) (not (< (f) (g ?y))))", "not-comparison"),
    ("(and (or (r) (not (<= (g ?x) 2))))", "not-comparison"), ("(and (not (> (f) 1)) (not (p ?y)))", "not-comparison"),
    ("(and (forall (?z - t1) (and (not (> (g ?z) 1)))))", "not-comparison"),
]
OUT_EFF = [
    ("(p ?x)", "bare-effect"), ("(not (p ?x))", "bare-effect"), ("(and (and (p ?x)))", "nested-and"),
    ("(and (r) (and (p ?x) (not (r))))", "nested-and"),
    ("(and (forall (?z - t1) (not (p ?z))))", "forall-no-when"), ("(and (forall (?z - t1) (and (p ?z))))", "forall-no-when"),
    ("(and (when (r) (forall (?z - t1) (when (p ?z) (not (p ?z))))))", "when-forall"),
    ("(and (when (or (p ?x) (r)) (q ?x ?y)))", "when-or"),
    ("(and (scale-up (f) 2))", "scale"), ("(and (scale-down (g ?x) 2))", "scale"),
    ("(and (zz ?x))", "undeclared-predicate"), ("(and (p ?x) (zz ?x) (r))", "undeclared-predicate"),
    ("(and (not (zz ?x)))", "undeclared-predicate"),
    ("(and (q ?x ?x))", "repeated-arg"), ("(and (increase (h ?x ?x) 1))", "repeated-arg-fluent"),
    ("(and (increase (f) (+ 1 (g ?x) (g ?y))))", "nary-arith"), ("(and (assign (f) (- (g ?x) (g ?y) 1)))", "nary-arith"),
    ("(and (decrease (g ?x) (/ (f) 2 4)))", "nary-arith"),
    ("(and (when (r) (and (p ?x) (when (p ?y) (q ?x ?y)))))", "nested-when"),
    ("(and (when (p ?x) (zz ?x)))", "undeclared-predicate"),
    ("(when (r) (p ?x))", "bare-when"),
    ("(and (assign (g ?x) (- (f))))", "unary-minus"),
    ("(and (when (not (>= (f) 1)) (r)))", "not-comparison"), ("(and (when (and (p ?x) (not (< (g ?x) 2))) (not (p ?x))))", "not-comparison"),
    ("(and (p ?x) (and (q ?x ?y) (r)))", "nested-and"), ("(and (increase (f) 1) (and (p ?y)) (not (r)))", "nested-and"),
    ("(and (not (q ?x ?y)) (and (increase (g ?x) 1) (q ?y ?x)))", "nested-and"),
]


def decl_variants():
    """(tag, domain text, objects, fragment) — declaration-level variation around one fixed action."""
    req = vdom.REQ
    act = ("(:action a :parameters ({params}) :precondition (and (p ?x) (q ?x ?y) (>= (h ?x ?y) 1)) "
           ":effect (and (not (p ?x)) (m ?y) (increase (g ?x) 1)))")
    types = vdom.TYPES
    P1 = "(:predicates (r) (p ?a - t1) (q ?a - t1 ?b - t1) (m ?a - object))"
    P2 = "(:predicates (r) (p ?a - t1) (q ?a ?b - t1) (m ?a))"            # grouped + trailing untyped
    P3 = "(:predicates (r) (p ?a - t1) (q ?a - t2 ?b - t1) (m ?a - object))"
    F1 = "(:functions (f) (g ?a - t1) (h ?a - t1 ?b - t1))"
    F2 = "(:functions (f) (g ?a - t1) (h ?a ?b - t1))"
    F3 = "(:functions (f) (g ?a - t1) (h ?a - t1 ?b))"                     # trailing untyped
    consts = ["", "(:constants c - t1)", "(:constants c k - t1)", "(:constants c - t1 k - t2)",
              "(:constants c - t1 u)", "(:constants u)"]
    params = ["?x - t1 ?y - t1", "?x ?y - t1", "?x - t2 ?y - t1", "?x - t1 ?y - t2", "?x ?y - t2"]
    objs = dict(vdom.OBJECTS)
    for pi, P in enumerate((P1, P2, P3)):
        for fi, F in enumerate((F1, F2, F3)):
            for ci, C in enumerate(consts):
                for qi, pr in enumerate(params):
                    if pi == 2 and qi in (0, 1, 3):
                        continue  # (q ?x ..) needs ?x - t2
                    if fi == 2 and False:
                        continue
                    body = act.format(params=pr)
                    yield (f"decl-p{pi}f{fi}c{ci}q{qi}",
                           f"(define (domain v)\n{req}\n{types}\n{C}\n{P}\n{F}\n{body})\n", objs, "in")
    # section order: constants after predicates / functions before predicates
    body = act.format(params=params[0])
    yield ("order-consts-late", f"(define (domain v)\n{req}\n{types}\n{P1}\n{F1}\n(:constants c - t1)\n{body})\n",
           objs, "in")
    yield ("order-funcs-first", f"(define (domain v)\n{req}\n{types}\n{F1}\n{P1}\n{body})\n", objs, "in")
    yield ("either", f"(define (domain v)\n{req}\n{types}\n{P1}\n{F1}\n"
           f"{act.format(params='?x - t1 ?y - (either t1 t3)')})\n", objs, "out")
    yield ("two-actions", f"(define (domain v)\n{req}\n{types}\n{P1}\n{F1}\n{body}\n"
           "(:action b :parameters (?x - t1) :precondition (and (not (p ?x))) :effect (and (p ?x))))\n", objs, "in")


def layouts(text):
    toks = sexp.tokens(text)
    yield "canonical", text
    yield "upper", text.upper()
    yield "token-per-line", "; leading comment (\n" + "".join(f"{t} ;c ) {i}\n" for i, t in enumerate(toks))
    lines = []
    for i in range(0, len(toks), 5):
        lines.append("\t".join(toks[i:i + 5]))
    yield "tabs-crlf", "\t" + "\t\r\n".join(lines) + "\r\n"


def cases(tier):
    seen = set()

    def emit(c, fragment, extra_tags=()):
        if c["domain"] in seen:
            return None
        seen.add(c["domain"])
        c = dict(c)
        c["fragment"] = fragment
        c["tags"] = list(c.get("tags", [])) + list(extra_tags)
        c["max_states"] = 64 if tier == "quick" else 256
        return c

    for p in vdom.pre_programs("quick" if tier == "quick" else "thorough"):
        c = emit(p, "in")
        if c:
            yield c
    for p in vdom.eff_programs("quick" if tier == "quick" else "thorough"):
        c = emit(p, "in")
        if c:
            yield c
    for text, tag in OUT_PRE:
        for prof in ("xy", "xy-grouped"):
            c = emit(vdom.program(prof, text, "(and (r))", [tag]), "out")
            if c:
                yield c
    for text, tag in OUT_EFF:
        for pre in ("(and)", "(and (p ?x))"):
            c = emit(vdom.program("xy", pre, text, [tag]), "out")
            if c:
                yield c
    for tag, text, objs, frag in decl_variants():
        c = emit({"domain": text, "objects": objs, "profile": "decl", "pre": tag, "eff": "", "tags": [tag]}, frag)
        if c:
            yield c


def vocab_ref(S):
    return {
        "types": sorted(S.type_names()),
        "constants": dict(sorted(S.constants.items())),
        "predicates": {n: [list(x) for x in sig] for n, sig in sorted(S.predicates.items())},
        "functions": {n: [list(x) for x in sig] for n, sig in sorted(S.functions.items())},
        "actions": {n: [list(x) for x in a.params] for n, a in sorted(S.actions.items())},
    }


def vocab_lib(D):
    return {
        "types": sorted(D.types.keys()),
        "constants": {n: c.type.name for n, c in sorted(D.constants.items())},
        "predicates": {n: [[k, t.name] for k, t in p.signature.items()] for n, p in sorted(D.predicates.items())},
        "functions": {n: [[k, t.name] for k, t in f.signature.items()] for n, f in sorted(D.functions.items())},
        "actions": {n: [[k, t.name] for k, t in a.signature.items()] for n, a in sorted(D.actions.items())},
    }


def observe(x):
    if isinstance(x, Raised):
        return x
    try:
        return observe_state(x)
    except Exception as e:
        return Raised(e)


def check_text(r, case, layout, text, pg_ref):
    """One rendering of one program."""
    frag = case["fragment"]
    c2 = dict(case)
    c2["domain"] = text
    pg = Prog(c2)
    S = pg_ref.S
    r.count("programs")
    if not pg.parsed:
        if frag == "in":
            r.outcome("in-fragment-rejected")
            r.fail("in-fragment-rejected", f"[{layout}] parse raised {pg.D} on in-fragment text; pre={case['pre']} "
                   f"eff={case['eff']} profile={case['profile']}", "parsed", pg.D.to_json(), tags=case["tags"])
        else:
            r.outcome("out-rejected-at-parse")
        return
    # (1) vocabulary
    v_lib = guard(vocab_lib, pg.D)
    v_ref = vocab_ref(S)
    if isinstance(v_lib, Raised) or v_lib != v_ref:
        r.outcome("vocabulary-differs")
        r.fail("vocabulary", f"[{layout}] parsed vocabulary {show(v_lib)} != source {v_ref}", v_ref, show(v_lib),
               tags=case["tags"])
        return
    # (2) meaning, per action
    altered = rejected = False
    nontrivial = False
    for aname, act in S.actions.items():
        pact = pg.P.actions.get(aname) if pg.P is not None else None
        for args in S.calls(act, pg.objs):
            states, _ = vdom.universe(S, act, args, pg.objs, max_states=case.get("max_states", 64))
            apps = set()
            for st in states:
                s_app = ref_applicable(S, aname, args, st, pg.objs)
                if s_app in (UNDEF,):
                    continue
                s_succ = ref_successor(S, aname, args, st, pg.objs) if s_app is True else None
                if s_app is ILL or s_succ is ILL:
                    # the reference itself cannot read the text (e.g. undeclared predicate, arity): the only
                    # acceptable implementation outcome is an exception at parse / ground / evaluation
                    lib_st, prob = pg.lib_state(st)
                    got = guard(lambda: pg.op(aname, args, prob).is_applicable(lib_st))
                    got2 = observe(guard(lambda: pg.op(aname, args, prob).apply(lib_st, skip_validation=True)))
                    r.count("transitions", 2)
                    if isinstance(got, Raised) or isinstance(got2, Raised):
                        rejected = True
                        continue
                    altered = True
                    r.fail("ill-formed-accepted", f"[{layout}] text the reference cannot give a meaning was parsed, "
                           f"grounded and evaluated without error: applicable={got} successor={show(got2)} "
                           f"pre={case['pre']} eff={case['eff']}", "exception", show(got2), tags=case["tags"])
                    break
                apps.add(s_app)
                if isinstance(s_succ, RefState) and s_succ != st:
                    nontrivial = True
                r.seen("states", digest((case["pre"], case["eff"], aname, args, st.key())))
                if pg.P is not None:
                    p_app = ref_applicable(pg.P, aname, args, st, pg.objs)
                    p_succ = ref_successor(pg.P, aname, args, st, pg.objs) if p_app is True else None
                    same = (p_app is s_app) and (
                        (s_succ is None) or (s_succ == p_succ) or
                        (isinstance(s_succ, RefState) and isinstance(p_succ, RefState) and same_state(s_succ, p_succ)))
                    r.count("validated")
                    if same:
                        continue
                # the parsed structure reads differently from the source (or cannot be read): confirm on the
                # implementation's behaviour before reporting
                lib_st, prob = pg.lib_state(st)
                got = guard(lambda: pg.op(aname, args, prob).is_applicable(lib_st))
                r.count("transitions")
                if isinstance(got, Raised):
                    rejected = True
                    continue
                bad = None
                if got is not s_app:
                    bad = f"applicable={got}, source says {s_app}"
                elif s_app is True and isinstance(s_succ, RefState):
                    got2 = observe(guard(lambda: pg.op(aname, args, prob).apply(lib_st)))
                    r.count("transitions")
                    if isinstance(got2, Raised):
                        rejected = True
                        continue
                    if not same_state(got2, s_succ):
                        bad = f"successor={show(got2)}, source says {show(s_succ)}"
                if bad:
                    altered = True
                    r.fail("altered", f"[{layout}] ({aname} {' '.join(args)}) in {st.to_json()}: {bad}; parsed structure "
                           f"reads as pre={sexp.dumps(pact.pre) if pact else None} eff={sexp.dumps(pact.eff) if pact else None}; "
                           f"source pre={case['pre']} eff={case['eff']}", show(s_succ) if s_succ else s_app, bad,
                           tags=case["tags"])
                    break
            if len(apps) == 2:
                nontrivial = True
            if altered:
                break
        if altered:
            break
    if nontrivial:
        r.nontrivial = True
    if altered:
        r.outcome("altered")
    elif rejected:
        r.outcome("rejected-at-evaluation" if frag == "out" else "in-fragment-raises-at-evaluation (C02/C03's business)")
    else:
        r.outcome("faithful")


def check_case(case):
    r = CaseResult()
    pg_ref = Prog(case, parse=False)
    canon_tree = sexp.read(case["domain"])
    for layout, text in layouts(case["domain"]):
        if sexp.read(text) != canon_tree:
            raise AssertionError(f"layout {layout} changed the token tree")
        check_text(r, case, layout, text, pg_ref)
        if len(r.fails) >= 2:
            break
    return r
