"""C09 — exporting a problem and parsing it back preserves it.

Space: every valid problem of C05's generator, and every problem file shipped under /repo/tests that
parses against a shipped domain with the same domain name.
Oracle: P' = parse(export(P), D): name, objects->types, initial facts, fluent values (incl. fluents with
repeated arguments), goal literals, numeric goals equal P's; empty sections stay empty; the exported text,
read independently by pv.sexp, says the same as the source.
"""
import glob
import os
from fractions import Fraction

from .. import sexp
from ..bridge import guard, Raised, parse_domain, parse_problem, REPO
from ..gens import problems as gp
from ..refsem import RefProblem, RefError, parse_typed_list
from ..runner import CaseResult
from .c05 import dom, valid_text, observe_problem, expected, compare, canon_cmp
from .c08 import shipped_domains
from .c20 import norm

ID = "C09"
RULE = ("generated: every valid problem of C05's bounded generator (object-table groupings, init subsets <= 3 / 4 atoms, "
        "every fluent x 16 numeral forms (incl. 007, -0, -0.0, 1E2, 100.50), goal subsets + numeric goals, typed and untyped domain); shipped: every file "
        "under /repo/tests that reads as a PDDL problem, paired with every shipped domain of the same name that parses it. "
        "Compared twice: the re-parsed Problem's public attributes, and the exported text read by pv.sexp; every problem is also exported by a long-lived exporter and written to a file (5 path forms, str / Path) over stale content, and the problem parsed before it over the same Domain object is exported again and compared with its snapshot. "
        "non-trivial = a problem with >= 2 init items or a goal")
ASSUMPTIONS = ["a problem whose first parse raises is C05's business and is skipped",
               "fluent values of the alphabet print exactly with Python's float repr"]
CASE_TIMEOUT = 120


_SHARED = None


def export(P):
    """exported text from a fresh exporter; a long-lived exporter (re-used for every problem of this process) must
    produce the same text"""
    global _SHARED
    from pddl_plus_parser.exporters import ProblemExporter
    fresh = ProblemExporter().extract_problem(P)
    if _SHARED is None:
        _SHARED = ProblemExporter()
    again = _SHARED.extract_problem(P)
    if sexp.read(again) != sexp.read(fresh):
        raise ExporterStateful(f"a re-used ProblemExporter exports a different text than a fresh one:\n{again}\n---\n{fresh}")
    # export to a file: the file at the path that was asked for holds that text, whatever the path looks like
    # (str or Path, with the usual suffix, another one, two dots, none) and whatever it held before
    global _PATH_ROT
    _PATH_ROT += 1
    from pathlib import Path
    from ..bridge import scratch_dir
    name = ["prob.pddl", "prob.txt", "p01.v2", "noext", "prob.pddl.bak"][_PATH_ROT % 5]
    target = os.path.join(scratch_dir(), f"c09_{os.getpid()}_{name}")
    with open(target, "wt") as f:
        f.write("(define (problem stale) (:domain w) (:objects) (:init) (:goal (and)))")
    _SHARED.export_problem(P, target if _PATH_ROT % 2 else Path(target))
    written = open(target, encoding="utf-8").read()
    if sexp.read(written) != sexp.read(fresh):
        raise ExporterStateful(f"export_problem(problem, {target!r}) left {written[:200]!r} at that path; extract_problem gives\n{fresh}")
    return fresh


_PATH_ROT = 0


class ExporterStateful(Exception):
    pass


def shipped_problems():
    doms = {}
    for rel in shipped_domains():
        t = sexp.read(open(os.path.join(REPO, rel), encoding="utf-8").read())
        doms.setdefault(t[1][1], []).append(rel)
    out = []
    for p in sorted(glob.glob(os.path.join(REPO, "tests", "**", "*.pddl"), recursive=True)):
        try:
            t = sexp.read(open(p, encoding="utf-8").read())
        except Exception:
            continue
        if isinstance(t, list) and len(t) > 2 and isinstance(t[1], list) and t[1][:1] == ["problem"]:
            dn = next((s[1] for s in t[2:] if isinstance(s, list) and s[:1] == [":domain"]), None)
            for d in doms.get(dn, []):
                out.append((os.path.relpath(p, REPO), d))
    return out


def cases(tier):
    batch = []
    for v in gp.valid_problems(tier):
        batch.append(v)
        if len(batch) == 20:
            yield {"kind": "valid-batch", "items": batch}
            batch = []
    if batch:
        yield {"kind": "valid-batch", "items": batch}
    for prob, d in shipped_problems():
        yield {"kind": "shipped", "problem": prob, "domain": d}
    # long hyphenated names in wide sections; the first name's length sweeps the column of every later token
    from ..gens import wide
    for k in wide.SHIFTS:
        yield {"kind": "wide", "shift": k}


def text_reading(text):
    """what the exported text says, by the independent reader"""
    rp = RefProblem.from_tree(sexp.read(text))
    goals, numgoals = [], []
    g = rp.goal
    for it in (g[1:] if g and g[0] == "and" else [g] if g else []):
        if it and it[0] in ("=", "<", ">", "<=", ">="):
            numgoals.append(sexp.dumps(norm(canon_cmp(it))))
        else:
            goals.append(tuple(it))
    return {"name": rp.name, "objects": dict(rp.objects), "atoms": set(rp.atoms), "fluents": dict(rp.fluents),
            "goals": goals, "numgoals": sorted(numgoals)}


def roundtrip(r, P, D, label, tags, snapshot=None):
    want = guard(observe_problem, P) if snapshot is None else snapshot
    if isinstance(want, Raised):
        r.fail("unreadable-problem", f"{label}: cannot observe parsed problem {want}", "", want.to_json(), tags=tags)
        return
    out = guard(export, P)
    r.count("transitions")
    if isinstance(out, Raised):
        r.outcome("export-raised")
        r.fail("export-raised", f"{label}: export raised {out}", "text", out.to_json(), tags=tags)
        return
    P2 = guard(parse_problem, out, D)
    r.count("transitions")
    if isinstance(P2, Raised):
        r.outcome("reparse-raised")
        r.fail("reparse-raised", f"{label}: exported problem does not parse back: {P2}\n{out[:1500]}", "parsed",
               P2.to_json(), tags=tags)
        return
    got = guard(observe_problem, P2)
    diffs = compare(want, got) if not isinstance(got, Raised) else [("unreadable-problem", str(got))]
    try:
        txt = text_reading(out)
        diffs += [("text-" + c, d) for c, d in compare(want, txt)]
    except (RefError, sexp.SexpError, IndexError, TypeError) as e:
        diffs.append(("text-unreadable", f"exported text cannot be read independently: {e}"))
    if diffs:
        r.outcome("roundtrip-differs")
        for clause, detail in diffs[:2]:
            r.fail(clause, f"{label}: {detail[:700]}\nexported:\n{out[:1200]}", None, None, tags=tags)
    else:
        r.outcome("roundtrip-ok")


def check_case(case):
    r = CaseResult()
    if case["kind"] == "valid-batch":
        earlier = None
        for v in case["items"]:
            text = valid_text(v)
            D = dom(v["typed"])
            P = guard(parse_problem, text, D)
            r.count("states")
            if isinstance(P, Raised):
                r.outcome("skip-first-parse-raised")
                continue
            if len(v["atoms"]) + len(v["fluents"]) >= 2 or v["goals"] or v["numgoals"]:
                r.nontrivial = True
            n_before = len(r.fails)
            roundtrip(r, P, D, text, [v["decl"], "typed" if v["typed"] else "untyped"])
            # the problem parsed (and exported) before this one over the same Domain object is exported again: it
            # still round-trips to what it was
            if earlier is not None and earlier[1] is D and len(r.fails) == n_before:
                roundtrip(r, earlier[0], D, "[exported again after a later problem was parsed] " + earlier[2],
                          ["earlier-problem"], snapshot=earlier[3])
            earlier = (P, D, text, guard(observe_problem, P)) if len(r.fails) == n_before else None
            if len(r.fails) >= 4:
                break
    elif case["kind"] == "wide":
        from ..gens import wide
        D = guard(parse_domain, wide.DOMAIN)
        P = guard(parse_problem, wide.problem(case["shift"]), D) if not isinstance(D, Raised) else D
        r.count("states")
        r.nontrivial = True
        if isinstance(P, Raised):
            r.fail("unreadable-problem", f"wide problem (shift {case['shift']}) does not parse: {P}", "parsed", str(P), tags=["wide"])
            return r
        roundtrip(r, P, D, f"wide problem, first object {wide.objects(case['shift'])[0]}", ["wide"])
    else:
        D = guard(lambda: parse_domain(open(os.path.join(REPO, case["domain"]), encoding="utf-8").read()))
        if isinstance(D, Raised):
            r.skipped = "shipped domain does not parse"
            return r
        P = guard(lambda: parse_problem(open(os.path.join(REPO, case["problem"]), encoding="utf-8").read(), D))
        r.count("states")
        if isinstance(P, Raised):
            r.skipped = "shipped problem does not parse against this domain (C05's business)"
            r.outcome("shipped-unparsed")
            return r
        r.nontrivial = True
        roundtrip(r, P, D, f"{case['problem']} with {case['domain']}", ["shipped"])
    return r
