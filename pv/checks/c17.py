"""C17 — combining agent domains / problems yields their union and disturbs nothing else.

Space: a typed base domain (types, constant, 3 predicates, function, 2 actions) and its problem; ALL splits
into 2 (quick) / 3 (thorough) per-agent files in which every vocabulary element / action / object / fact /
goal goes to a non-empty subset of the agents (overlap allowed, files kept self-contained); EVERY discovery
order (Path.glob patched on the harness side); add_dummy_actions in {False, True}; preceded and followed by
parsing unrelated typed and untyped domains and by Domain().
Oracle: combined sections = set union of the parts; combined problem = union of objects, initial facts
(no duplicates), fluent values, goals (no duplicates); identical for every discovery order; export + re-parse
preserves the combination; afterwards Domain().types is {'object'}, domains parsed earlier are unchanged,
an untyped domain parsed later has only 'object'.
"""
import os
from fractions import Fraction
import pathlib
import shutil
from itertools import permutations, product, combinations

from .. import sexp
from ..bridge import guard, Raised, parse_domain, parse_problem, scratch_dir
from ..runner import CaseResult, digest
from .c01 import vocab_lib
from .c05 import observe_problem
from .c07 import dom_digest, default_types_digest, OTHER_T, OTHER_U

ID = "C17"
RULE = ("domain elements: predicates p,q,r; function f; constant k; actions a1 (uses p,k), a2 (uses q,p,f,r; parameters ?x - t1 ?y - t2 ?w - t1); problem "
        "elements: objects o1,o2 (plus u0 - object, first in the first agent's file); facts (p o1), (p o2), (q o1 o2), (= (f) 1234567.25); types t1 > t2 > t3 > t4; goals (p o2), (r); agents 2 (quick) / 3 (thorough: "
        "domain splits only); every assignment of each element to a non-empty subset of agents that keeps each file "
        "self-contained; every permutation of the discovered files; add_dummy_actions on/off. one case = one domain split "
        "(with all orders, both dummy settings, and a rotating problem split). non-trivial = a split in which some "
        "element is shared and some is private")
ASSUMPTIONS = ["elements that occur in several files have identical definitions (conflicting definitions are outside the property)",
               "Path.glob order is the only source of discovery order"]
CASE_TIMEOUT = 300

REQ = "(:requirements :typing :negative-preconditions :numeric-fluents)"
TYPES = "(:types t1 - object t2 - t1 t3 - t2 t4 - t3)"  # four levels below object
PRED = {"p": "(p ?a - t1)", "q": "(q ?a - t1 ?b - t2)", "r": "(r)", "s0": "(s0 ?a - t2)"}   # s0: used by no action
FUNC = {"f": "(f)"}
CONST = {"k": "k - t1"}
ACT = {
    "a1": ("(:action a1 :parameters (?x - t1) :precondition (and (p ?x) (not (p k))) :effect (and (not (p ?x)) (p k)))",
           {"p", "k"}),
    # a2's same-typed parameters are not neighbours (?x - t1 ?y - t2 ?w - t1)
    "a2": ("(:action a2 :parameters (?x - t1 ?y - t2 ?w - t1) :precondition (and (q ?x ?y) (p ?w) (>= (f) 1)) "
           ":effect (and (r) (decrease (f) 1)))", {"q", "f", "r", "p"}),
}
OBJ = {"o1": "t1", "o2": "t2"}
FACTS = {"(p o1)": {"o1", "p"}, "(p o2)": {"o2", "p"}, "(q o1 o2)": {"o1", "o2", "q"}, "(= (f) 1234567.25)": {"f"}}  # more than six significant digits
GOALS = {"(p o2)": {"o2", "p"}, "(r)": {"r"}}


def nonempty_subsets(n):
    return [s for k in range(1, n + 1) for s in combinations(range(n), k)]


def domain_splits(n):
    elems = list(PRED) + list(FUNC) + list(CONST) + list(ACT)
    subs = nonempty_subsets(n)
    for assign in product(subs, repeat=len(elems)):
        where = dict(zip(elems, assign))
        ok = True
        for a, (_, needs) in ACT.items():
            for ag in where[a]:
                if any(ag not in where[x] for x in needs):
                    ok = False
        if ok:
            yield where


def problem_splits(n, where):
    """problem element assignments compatible with a domain split (a file only mentions what its domain declares is
    not needed: problems are parsed against the COMBINED domain)"""
    elems = list(OBJ) + list(FACTS) + list(GOALS)
    subs = nonempty_subsets(n)
    for assign in product(subs, repeat=len(elems)):
        w = dict(zip(elems, assign))
        ok = True
        for group in (FACTS, GOALS):
            for fct, needs in group.items():
                for ag in w[fct]:
                    if any(ag not in w[o] for o in needs if o in OBJ):
                        ok = False
        if ok:
            yield w


def cases(tier):
    n = 2
    psplits = list(problem_splits(2, None))
    for i, where in enumerate(domain_splits(n)):
        yield {"agents": n, "where": {k: list(v) for k, v in where.items()},
               "pwhere": {k: list(v) for k, v in psplits[i % len(psplits)].items()}, "pindex": i % len(psplits)}
    # every problem split at least once (with the all-shared domain split)
    full = {k: [0, 1] for k in list(PRED) + list(FUNC) + list(CONST) + list(ACT)}
    for j, pw in enumerate(psplits):
        yield {"agents": 2, "where": full, "pwhere": {k: list(v) for k, v in pw.items()}, "pindex": j, "tags": ["problem"]}
    if tier != "quick":
        psplits3 = list(problem_splits(3, None))
        for i, where in enumerate(domain_splits(3)):
            if i % 7:
                continue  # every 7th 3-agent split (stated cap; the 2-agent space is complete)
            yield {"agents": 3, "where": {k: list(v) for k, v in where.items()},
                   "pwhere": {k: list(v) for k, v in psplits3[i % len(psplits3)].items()}, "pindex": i % len(psplits3)}


def domain_file(where, ag):
    preds = " ".join(PRED[p] for p in PRED if ag in where[p])
    funcs = " ".join(FUNC[f] for f in FUNC if ag in where[f])
    consts = " ".join(CONST[c] for c in CONST if ag in where[c])
    acts = "\n".join(ACT[a][0] for a in ACT if ag in where[a])
    # an agent file without functions declares a purely propositional domain
    req = REQ if funcs else "(:requirements :typing :negative-preconditions)"
    return (f"(define (domain mad)\n{req}\n{TYPES}\n" + (f"(:constants {consts})\n" if consts else "") +
            f"(:predicates {preds})\n" + (f"(:functions {funcs})\n" if funcs else "") + acts + ")\n")


def problem_file(pw, ag):
    # u0: an object of the root type, declared first in the first agent's file (before the typed objects); the other
    # agents may own no object at all
    objs = ("u0 - object " if ag == 0 else "") + " ".join(f"{o} - {t}" for o, t in OBJ.items() if ag in pw[o])
    init = " ".join(f for f in FACTS if ag in pw[f])
    goals = " ".join(g for g in GOALS if ag in pw[g])
    return f"(define (problem madp) (:domain mad)\n(:objects {objs})\n(:init {init})\n(:goal (and {goals})))\n"


class GlobOrder:
    """harness-side seam: Path.glob returns the files in a chosen permutation"""

    def __init__(self, perm):
        self.perm = perm

    def __enter__(self):
        self.orig = pathlib.Path.glob
        perm = self.perm
        orig = self.orig

        def glob(self_path, pattern, **kw):
            files = sorted(orig(self_path, pattern, **kw))
            if len(files) == len(perm):
                files = [files[i] for i in perm]
            return iter(files)
        pathlib.Path.glob = glob
        return self

    def __exit__(self, *a):
        pathlib.Path.glob = self.orig


_other_team_done = False


def combine_another_team_first():
    """Once per process, before the first case: another team, in another directory, whose agent files have the SAME
    file names (and the same domain / problem names) but other content, is combined and exported.  Nothing kept from
    it may show up in a later combination."""
    global _other_team_done
    if _other_team_done:
        return
    _other_team_done = True
    from pddl_plus_parser.multi_agent import MultiAgentDomainsConverter, MultiAgentProblemsConverter
    d = pathlib.Path(scratch_dir()) / f"c17_other_{os.getpid()}"
    shutil.rmtree(d, ignore_errors=True)
    d.mkdir()
    try:
        for ag, (pred, act) in enumerate((("(zq ?a - t2)", "zb"), ("(zr ?a - t1 ?b - t1)", "zc"))):
            (d / f"domain-ag{ag}.pddl").write_text(
                f"(define (domain mad)\n(:requirements :typing)\n(:types t2 - object t1 - t2 t9 - t1)\n(:constants k - t9)\n"
                f"(:predicates {pred} (p ?a - t9))\n(:action {act} :parameters (?x - t9) :precondition (and (p ?x)) "
                f":effect (and (not (p ?x)))))\n")
            (d / f"prob-ag{ag}.pddl").write_text(
                f"(define (problem madp) (:domain mad)\n(:objects o1 o{ag + 7} - t9)\n(:init (p o1) (p o{ag + 7}))\n"
                f"(:goal (and (p k))))\n")
        out = d / "out"
        out.mkdir()
        path = MultiAgentDomainsConverter(d).export_combined_domain(add_dummy_actions=False, output_folder=out)
        MultiAgentDomainsConverter(d).locate_domains(add_dummy_actions=True)
        MultiAgentProblemsConverter(d, "prob").combine_problems(path)
    except Exception:  # noqa: the other team is only there to be remembered wrongly
        pass
    shutil.rmtree(d, ignore_errors=True)


def check_case(case):
    from pddl_plus_parser.multi_agent import MultiAgentDomainsConverter, MultiAgentProblemsConverter
    from pddl_plus_parser.exporters import DomainExporter, ProblemExporter
    combine_another_team_first()
    r = CaseResult()
    n = case["agents"]
    where = {k: tuple(v) for k, v in case["where"].items()}
    pw = {k: tuple(v) for k, v in case["pwhere"].items()}
    sizes = {len(v) for v in where.values()}
    r.nontrivial = len(sizes) > 1
    tags = list(case.get("tags", [])) + [f"agents{n}"]
    d = pathlib.Path(scratch_dir()) / f"c17_{os.getpid()}"
    shutil.rmtree(d, ignore_errors=True)
    d.mkdir()
    for ag in range(n):
        (d / f"domain-ag{ag}.pddl").write_text(domain_file(where, ag))
        (d / f"prob-ag{ag}.pddl").write_text(problem_file(pw, ag))
    earlier_t, earlier_u = parse_domain(OTHER_T), parse_domain(OTHER_U)
    dig_t, dig_u, defaults = dom_digest(earlier_t), dom_digest(earlier_u), default_types_digest()
    want_vocab = {
        "types": ["object", "t1", "t2", "t3", "t4"],
        "constants": {"k": "t1"},
        "predicates": {"p": [["?a", "t1"]], "q": [["?a", "t1"], ["?b", "t2"]], "r": [], "s0": [["?a", "t2"]]},
        "functions": {"f": []},
        "actions": {"a1": [["?x", "t1"]], "a2": [["?x", "t1"], ["?y", "t2"], ["?w", "t1"]]},
    }
    want_problem = {"objects": dict(OBJ, u0="object"), "atoms": {("p", "o1"), ("p", "o2"), ("q", "o1", "o2")}, "fluents": {("f",): Fraction("1234567.25")},
                    "goals": {("p", "o2"), ("r",)}}
    first_vocab = None
    for perm in permutations(range(n)):
        for dummy in (False, True):
            r.seen("states", digest((str(case["where"]), perm, dummy)))
            with GlobOrder(perm):
                comb = guard(lambda: MultiAgentDomainsConverter(d).locate_domains(add_dummy_actions=dummy))
                if not dummy:
                    # one converter used twice (first with the dummy actions) must answer the second call like a fresh one
                    reused = MultiAgentDomainsConverter(d)
                    guard(lambda: reused.locate_domains(add_dummy_actions=True))
                    again = guard(lambda: reused.locate_domains(add_dummy_actions=False))
                    if isinstance(again, Raised) or isinstance(comb, Raised) or guard(vocab_lib, again) != guard(vocab_lib, comb):
                        r.fail("converter-reuse", f"split {case['where']} order {perm}: a converter that was first asked for the "
                               f"dummy actions answers a plain locate_domains() differently from a fresh converter: "
                               f"{guard(vocab_lib, again) if not isinstance(again, Raised) else again}", "same as fresh",
                               str(again)[:200], tags=tags)
                        return r
            r.count("transitions")
            label = f"split {case['where']} order {perm} dummy={dummy}"
            if isinstance(comb, Raised):
                r.fail("combine-raised", f"{label}: locate_domains raised {comb}", "domain", comb.to_json(), tags=tags)
                return r
            v = guard(vocab_lib, comb)
            w = {k: (dict(x) if isinstance(x, dict) else list(x)) for k, x in want_vocab.items()}
            if dummy:
                w["predicates"] = dict(w["predicates"], **{"dummy-additional-predicate": []})
                w["actions"] = dict(w["actions"], **{"dummy-add-predicate-action": [["?agent", "object"]],
                                                     "dummy-del-predicate-action": [["?agent", "object"]]})
            if isinstance(v, Raised) or v != {k: (dict(sorted(x.items())) if isinstance(x, dict) else x) for k, x in w.items()}:
                r.fail("domain-union", f"{label}: combined vocabulary {v} is not the union {w}", str(w), str(v), tags=tags)
                return r
            # export + re-parse of the combination
            out = d / "out"
            out.mkdir(exist_ok=True)
            with GlobOrder(perm):
                path = guard(lambda: MultiAgentDomainsConverter(d).export_combined_domain(add_dummy_actions=dummy,
                                                                                         output_folder=out))
            re = guard(lambda: parse_domain(open(path).read())) if not isinstance(path, Raised) else path
            r.count("transitions")
            if isinstance(re, Raised) or guard(vocab_lib, re) != v:
                r.fail("domain-roundtrip", f"{label}: exported combined domain does not parse back to the same vocabulary: "
                       f"{re if isinstance(re, Raised) else guard(vocab_lib, re)}", str(v), str(re)[:300], tags=tags)
                return r
            # behaviour of the combined actions is C08's business; here the action bodies must be present
            if first_vocab is None:
                first_vocab = v
            # problems
            if not dummy:
                pconv = MultiAgentProblemsConverter(d, "prob")
                with GlobOrder(perm):
                    prob = guard(lambda: pconv.combine_problems(path))
                r.count("transitions")
                if isinstance(prob, Raised):
                    r.fail("combine-problems-raised", f"{label} problem split {case['pwhere']}: combine_problems raised "
                           f"{prob}", "problem", prob.to_json(), tags=tags)
                    return r
                ob = guard(observe_problem, prob)
                bad = None
                if isinstance(ob, Raised):
                    bad = str(ob)
                elif ob["objects"] != want_problem["objects"]:
                    bad = f"objects {ob['objects']}"
                elif ob["atoms"] != want_problem["atoms"] or ob["fluents"] != want_problem["fluents"]:
                    bad = f"init {sorted(ob['atoms'])} { {k: str(x) for k, x in ob['fluents'].items()} }"
                elif sorted(ob["goals"]) != sorted(want_problem["goals"]):
                    bad = f"goals {ob['goals']} (duplicates or missing)"
                n_facts = sum(len(s) for s in prob.initial_state_predicates.values()) if not isinstance(prob, Raised) else 0
                if bad is None and n_facts != len(want_problem["atoms"]):
                    bad = f"{n_facts} stored facts for {len(want_problem['atoms'])} distinct ones (duplicates)"
                if bad:
                    r.fail("problem-union", f"{label} problem split {case['pwhere']}: combined problem is not the union: {bad}",
                           str(want_problem), bad, tags=tags)
                    return r
                # the same converter asked again answers as it did the first time
                with GlobOrder(perm):
                    prob_again = guard(lambda: pconv.combine_problems(path))
                ob_again = guard(observe_problem, prob_again) if not isinstance(prob_again, Raised) else prob_again
                n_again = sum(len(s) for s in prob_again.initial_state_predicates.values()) \
                    if not isinstance(prob_again, Raised) else -1
                r.count("transitions")
                if isinstance(ob_again, Raised) or any(ob_again[k] != ob[k] for k in ("objects", "atoms", "fluents")) \
                        or sorted(ob_again["goals"]) != sorted(ob["goals"]) or n_again != n_facts:
                    r.fail("converter-reuse", f"{label} problem split {case['pwhere']}: a second combine_problems() on the same "
                           f"converter gives {ob_again} ({n_again} stored facts), the first gave {ob} ({n_facts})", str(ob),
                           str(ob_again)[:300], tags=tags + ["problems-converter"])
                    return r
                text = guard(lambda: ProblemExporter().extract_problem(prob))
                re2 = guard(lambda: observe_problem(parse_problem(text, re))) if not isinstance(text, Raised) else text
                if isinstance(re2, Raised) or any(re2[k] != ob[k] for k in ("objects", "atoms", "fluents")) \
                        or sorted(re2["goals"]) != sorted(ob["goals"]):
                    r.fail("problem-roundtrip", f"{label}: exported combined problem does not parse back to the same problem: "
                           f"{re2}", str(ob), str(re2)[:300], tags=tags)
                    return r
            # nothing else is disturbed
            later_u = guard(parse_domain, OTHER_U)
            checks = [("defaults", default_types_digest(), defaults), ("earlier-typed", dom_digest(earlier_t), dig_t),
                      ("earlier-untyped", dom_digest(earlier_u), dig_u),
                      ("later-untyped-types", sorted(later_u.types) if not isinstance(later_u, Raised) else later_u, ["object"])]
            for what, now, before in checks:
                if now != before:
                    r.fail("disturbed", f"{label}: after combining, {what} changed: {str(before)[:200]} -> {str(now)[:200]}",
                           str(before)[:200], str(now)[:200], tags=tags + [what])
                    return r
            r.outcome("ok")
    shutil.rmtree(d, ignore_errors=True)
    if case.get("pindex") == 0 and "problem" in case.get("tags", []):
        for perm in ((0, 1), (1, 0)):   # both discovery orders of the two agent files
            with GlobOrder(perm):
                if not r.fails:
                    numeric_goals_only(r, case)
        if not r.fails:
            shared_items_in_other_orders(r, case)
        if not r.fails:
            constants_of_several_types(r, case)
    return r


def numeric_goals_only(r, case):
    """a team whose goals are numeric conditions only (no goal literal anywhere): the combination, and its export and
    re-parse, keep them"""
    from pddl_plus_parser.multi_agent import MultiAgentDomainsConverter, MultiAgentProblemsConverter
    from pddl_plus_parser.exporters import ProblemExporter
    d = pathlib.Path(scratch_dir()) / f"c17_ng_{os.getpid()}"
    shutil.rmtree(d, ignore_errors=True)
    d.mkdir()
    where = {k: (0, 1) for k in list(PRED) + list(FUNC) + list(CONST) + list(ACT)}
    goals = ["(>= (f) 1)", "(<= (f) 2000000)"]
    for ag in range(2):
        (d / f"domain-ag{ag}.pddl").write_text(domain_file(where, ag))
        (d / f"prob-ag{ag}.pddl").write_text(
            f"(define (problem madp) (:domain mad)\n(:objects o1 - t1 o2 - t2)\n(:init (p o1) (= (f) 5))\n"
            f"(:goal (and {goals[ag]} {goals[1] if not ag else ''})))\n")
    out = d / "out"
    out.mkdir()
    path = guard(lambda: MultiAgentDomainsConverter(d).export_combined_domain(add_dummy_actions=False, output_folder=out))
    prob = guard(lambda: MultiAgentProblemsConverter(d, "prob").combine_problems(path)) if not isinstance(path, Raised) else path
    ob = guard(observe_problem, prob) if not isinstance(prob, Raised) else prob
    r.count("transitions")
    want = sorted(["(>= (f) 1)", "(<= (f) 2000000)"])
    if isinstance(ob, Raised) or sorted(set(ob["numgoals"])) != want or ob["goals"]:
        r.fail("problem-union", f"numeric-goals-only team: combined goals {ob if isinstance(ob, Raised) else (ob['goals'], ob['numgoals'])}, "
               f"expected the two numeric conditions {want}", want, str(ob)[:200], tags=["numeric-goals-only"])
        shutil.rmtree(d, ignore_errors=True)
        return
    text = guard(lambda: ProblemExporter().extract_problem(prob))
    re_ = guard(lambda: observe_problem(parse_problem(text, parse_domain(open(path).read())))) if not isinstance(text, Raised) else text
    r.count("transitions")
    if isinstance(re_, Raised) or sorted(set(re_["numgoals"])) != want:
        r.fail("problem-roundtrip", f"numeric-goals-only team: the exported combined problem parses back with goals "
               f"{re_ if isinstance(re_, Raised) else re_['numgoals']}, expected {want}; exported text:\n{str(text)[:600]}", want,
               str(re_)[:200], tags=["numeric-goals-only"])
    shutil.rmtree(d, ignore_errors=True)


def shared_items_in_other_orders(r, case):
    """two agents share four goal literals and four initial facts; one file lists them in a fixed order (with a private
    goal in between), the other in EVERY permutation, in both roles: the combination holds each of them exactly once"""
    from itertools import permutations as _perms
    from pddl_plus_parser.multi_agent import MultiAgentDomainsConverter, MultiAgentProblemsConverter
    from pddl_plus_parser.exporters import ProblemExporter
    d = pathlib.Path(scratch_dir()) / f"c17_so_{os.getpid()}"
    shutil.rmtree(d, ignore_errors=True)
    d.mkdir()
    where = {k: (0, 1) for k in list(PRED) + list(FUNC) + list(CONST) + list(ACT)}
    for ag in range(2):
        (d / f"domain-ag{ag}.pddl").write_text(domain_file(where, ag))
    out = d / "out"
    out.mkdir()
    path = guard(lambda: MultiAgentDomainsConverter(d).export_combined_domain(add_dummy_actions=False, output_folder=out))
    if isinstance(path, Raised):
        r.fail("domain-union", f"shared-items team: combining the domains raised {path}", "combined", str(path), tags=["shared-orders"])
        shutil.rmtree(d, ignore_errors=True)
        return
    shared = ["(p o1)", "(p o2)", "(q o1 o2)", "(r)"]
    private = "(s0 o2)"
    fixed = shared[:2] + [private] + shared[2:]
    want = sorted([("p", "o1"), ("p", "o2"), ("q", "o1", "o2"), ("r",), ("s0", "o2")])
    for perm in _perms(shared):
        for fixed_agent in (0, 1):
            lists = {fixed_agent: fixed, 1 - fixed_agent: list(perm)}
            for ag in range(2):
                items = " ".join(lists[ag])
                (d / f"prob-ag{ag}.pddl").write_text(
                    f"(define (problem madp) (:domain mad)\n(:objects o1 - t1 o2 - t2)\n(:init {items} (= (f) 5))\n"
                    f"(:goal (and {items})))\n")
            prob = guard(lambda: MultiAgentProblemsConverter(d, "prob").combine_problems(path))
            ob = guard(observe_problem, prob) if not isinstance(prob, Raised) else prob
            r.count("transitions")
            r.count("states")
            label = f"shared-items team: agent {fixed_agent} lists {' '.join(fixed)}, the other {' '.join(perm)} (init and goal)"
            if isinstance(ob, Raised) or sorted(map(tuple, ob["goals"])) != want or sorted(map(tuple, ob["atoms"])) != want:
                r.fail("problem-union", f"{label}: combined goals {ob if isinstance(ob, Raised) else sorted(ob['goals'])}, facts "
                       f"{'' if isinstance(ob, Raised) else sorted(ob['atoms'])}, expected each of {want} exactly once", want, str(ob)[:300],
                       tags=["shared-orders"])
                shutil.rmtree(d, ignore_errors=True)
                return
            text = guard(lambda: ProblemExporter().extract_problem(prob))
            re_ = guard(lambda: observe_problem(parse_problem(text, parse_domain(open(path).read())))) if not isinstance(text, Raised) else text
            r.count("transitions")
            if isinstance(re_, Raised) or sorted(map(tuple, re_["goals"])) != want or sorted(map(tuple, re_["atoms"])) != want:
                r.fail("problem-roundtrip", f"{label}: the exported combined problem parses back with goals "
                       f"{re_ if isinstance(re_, Raised) else sorted(re_['goals'])}, expected {want}; exported text:\n{str(text)[:600]}",
                       want, str(re_)[:200], tags=["shared-orders"])
                shutil.rmtree(d, ignore_errors=True)
                return
    shutil.rmtree(d, ignore_errors=True)


def constants_of_several_types(r, case):
    """three constants of two types (k - t1, k2 - t2, k3 - t1), each owned by every non-empty subset of two agents, each
    file listing its constants in every order, both discovery orders: the combined domain and its export / re-parse
    declare each constant once with its own type (in the union same-typed constants need not be neighbours)"""
    from itertools import permutations as _perms, product as _prod
    from pddl_plus_parser.multi_agent import MultiAgentDomainsConverter
    CON = {"k": "t1", "k2": "t2", "k3": "t1"}
    want = dict(CON)
    d = pathlib.Path(scratch_dir()) / f"c17_ct_{os.getpid()}"
    body = ("(:predicates (p ?a - t1) (s0 ?a - t2))\n"
            "(:action a1 :parameters (?x - t1) :precondition (and (p ?x)) :effect (and (not (p ?x)) (p k) (s0 k2) (p k3)))")
    owners = [(0,), (1,), (0, 1)]
    for own in _prod(owners, repeat=3):
        mine = {ag: [c for c, o in zip(CON, own) if ag in o] for ag in (0, 1)}
        for o0 in _perms(mine[0]):
            for o1 in _perms(mine[1]):
                for swap in (False, True):
                    shutil.rmtree(d, ignore_errors=True)
                    d.mkdir()
                    out = d / "out"
                    out.mkdir()
                    for ag, order in ((0, o0), (1, o1)):
                        # every file declares all three (its action mentions them); the OWNED ones come first, in the
                        # enumerated order, the others after them
                        rest = [c for c in CON if c not in order]
                        consts = " ".join(f"{c} - {CON[c]}" for c in list(order) + rest)
                        name = f"domain-ag{1 - ag if swap else ag}.pddl"
                        (d / name).write_text(f"(define (domain mad)\n(:requirements :typing :negative-preconditions)\n{TYPES}\n"
                                              f"(:constants {consts})\n{body})\n")
                    label = f"constants team: files list {list(o0) + [c for c in CON if c not in o0]} / {list(o1) + [c for c in CON if c not in o1]}" \
                            f"{' (file names swapped)' if swap else ''}"
                    dom = guard(lambda: MultiAgentDomainsConverter(d).locate_domains())
                    got = guard(lambda: {n: c.type.name for n, c in dom.constants.items()}) if not isinstance(dom, Raised) else dom
                    r.count("transitions")
                    r.count("states")
                    if isinstance(got, Raised) or got != want:
                        r.fail("domain-union", f"{label}: combined constants {got}, expected {want}", want, str(got)[:200],
                               tags=["constants-types"])
                        shutil.rmtree(d, ignore_errors=True)
                        return
                    path = guard(lambda: MultiAgentDomainsConverter(d).export_combined_domain(add_dummy_actions=False, output_folder=out))
                    re_ = guard(lambda: {n: c.type.name for n, c in parse_domain(open(path).read()).constants.items()}) \
                        if not isinstance(path, Raised) else path
                    r.count("transitions")
                    if isinstance(re_, Raised) or re_ != want:
                        r.fail("domain-roundtrip", f"{label}: the exported combined domain parses back with constants {re_}, expected "
                               f"{want}; exported text:\n{open(path).read()[:500] if not isinstance(path, Raised) else path}", want,
                               str(re_)[:200], tags=["constants-types"])
                        shutil.rmtree(d, ignore_errors=True)
                        return
    shutil.rmtree(d, ignore_errors=True)
