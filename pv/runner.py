"""Sharded exhaustive case runner, evidence writer, known-findings matching, replay files.

A check module provides
    ID            property id
    TITLE         one line
    cases(tier)   -> iterable of JSON-able case dicts, simplest first; the WHOLE bounded space
    check_case(case) -> CaseResult
    RULE          how cases are enumerated / what makes one non-trivial (evidence text)
    ASSUMPTIONS   list of strings
    optional: finish(agg, tier) -> None   (cross-case oracles / extra evidence keys)
"""
import hashlib
import json
import multiprocessing as mp
import os
import signal
import sys
import time
import traceback
from collections import Counter
from typing import Any, Dict, List, Optional

VERIF = os.path.dirname(os.path.dirname(os.path.abspath(__file__)))
# PV_OUT redirects evidence / replay output (used only when evaluating seeded changes on scratch trees)
_OUT = os.environ.get("PV_OUT", VERIF)
EVIDENCE_DIR = os.path.join(_OUT, "evidence")
REPLAY_DIR = os.path.join(_OUT, "replays")
FINDINGS_FILE = os.path.join(VERIF, "known_findings.jsonl")


class Fail:
    def __init__(self, clause: str, detail: str, expected=None, observed=None, tags=()):
        self.clause, self.detail, self.expected, self.observed = clause, detail, expected, observed
        self.tags = list(tags)

    def to_json(self):
        return {"clause": self.clause, "detail": self.detail, "expected": self.expected,
                "observed": self.observed, "tags": self.tags}


class CaseResult:
    """Outcome of one case.  counters are summed over cases; keys (a set of hashable digests per
    counter name) are unioned and counted as *distinct* things."""

    def __init__(self):
        self.fails: List[Fail] = []
        self.counters: Counter = Counter()
        self.outcomes: Counter = Counter()
        self.distinct: Dict[str, set] = {}
        self.nontrivial = False
        self.skipped: Optional[str] = None

    def fail(self, clause, detail, expected=None, observed=None, tags=()):
        self.fails.append(Fail(clause, detail, expected, observed, tags))

    def count(self, name, n=1):
        self.counters[name] += n

    def outcome(self, name, n=1):
        self.outcomes[name] += n

    def seen(self, name, digest):
        self.distinct.setdefault(name, set()).add(digest)


def case_id(case) -> str:
    return hashlib.sha1(json.dumps(case, sort_keys=True, default=str).encode()).hexdigest()[:16]


def digest(obj) -> int:
    return int.from_bytes(hashlib.blake2b(repr(obj).encode(), digest_size=8).digest(), "big")


RECHECK_K = 12


def result_digest(r: "CaseResult") -> str:
    """what a case produced, for the fresh-process determinism control"""
    return hashlib.sha1(json.dumps([sorted(r.outcomes.items()), sorted(r.counters.items()),
                                    [(f.clause, f.detail) for f in r.fails], r.skipped, r.nontrivial],
                                   sort_keys=True, default=str).encode()).hexdigest()[:16]


class CaseTimeout(Exception):
    pass


def _alarm(signum, frame):
    raise CaseTimeout()


_MOD = None


def _load(modname):
    global _MOD
    if _MOD is None or _MOD.__name__ != modname:
        import importlib
        _MOD = importlib.import_module(modname)
    return _MOD


def run_case(mod, case) -> "CaseResult":
    """check_case, with one rule about exceptions: an exception that escapes from LIBRARY code while the harness was
    preparing or driving a case (building a valid state through the problem parser, grounding a type-correct call, ...)
    is an observation about the library and is reported as a failure of the case; an exception raised by harness
    code is a harness error and propagates."""
    try:
        return mod.check_case(case)
    except CaseTimeout:
        raise
    except Exception as e:
        tb = e.__traceback__
        last = None
        while tb is not None:
            last = tb
            tb = tb.tb_next
        fname = os.path.realpath(last.tb_frame.f_code.co_filename) if last is not None else ""
        lib_root = os.path.realpath(os.path.join(os.environ.get("PV_REPO", "/repo"), "pddl_plus_parser")) + os.sep
        if not fname.startswith(lib_root):
            raise
        r = CaseResult()
        r.nontrivial = True
        r.fail("library-raised", f"the library raised {type(e).__name__}: {str(e)[:200]} at "
               f"{os.path.relpath(fname, os.path.dirname(lib_root.rstrip(os.sep)))}:{last.tb_lineno} while the harness was "
               f"driving a valid input of this case (not inside a guarded query): "
               f"{traceback.format_exc()[-700:]}", "no exception", type(e).__name__, tags=["library-raised"])
        r.outcome("library-raised")
        return r


def _run_chunk(arg):
    modname, chunk, per_case_timeout = arg
    mod = _load(modname)
    signal.signal(signal.SIGALRM, _alarm)
    agg = {"counters": Counter(), "outcomes": Counter(), "distinct": {}, "fails": [], "n": 0,
           "nontrivial": 0, "skipped": Counter(), "timeouts": 0, "errors": [], "samples": []}
    for idx, case in chunk:
        signal.alarm(per_case_timeout)
        try:
            r = run_case(mod, case)
            signal.alarm(0)
        except CaseTimeout:
            agg["timeouts"] += 1
            agg["n"] += 1
            continue
        except Exception:  # harness error: never a violation
            signal.alarm(0)
            agg["errors"].append({"index": idx, "case": case, "trace": traceback.format_exc()[-2000:]})
            agg["n"] += 1
            continue
        agg["n"] += 1
        if idx < RECHECK_K:
            agg.setdefault("digests", {})[idx] = result_digest(r)
        agg["counters"].update(r.counters)
        agg["outcomes"].update(r.outcomes)
        for k, s in r.distinct.items():
            agg["distinct"].setdefault(k, set()).update(s)
        if r.skipped:
            agg["skipped"][r.skipped] += 1
        if r.nontrivial:
            agg["nontrivial"] += 1
        for f in r.fails:
            if len(agg["fails"]) < 200:
                agg["fails"].append({"index": idx, "case": case, "fail": f.to_json()})
            else:
                agg["counters"]["fails_dropped"] += 1
        if idx < 3 or (r.nontrivial and len(agg["samples"]) < 2):
            agg["samples"].append(case)
    return agg


def load_findings(prop: str):
    out = []
    if os.path.exists(FINDINGS_FILE):
        for line in open(FINDINGS_FILE):
            line = line.strip()
            if not line or line.startswith("#"):
                continue
            j = json.loads(line)
            if j.get("property") == prop and j.get("status") == "finding":
                out.append(j)
    return out


def match_finding(findings, mod, case, fail) -> Optional[dict]:
    """A failure is attributed to a known finding iff the finding's matcher accepts it.
    Matchers: {"kind":"case","case_ids":[...],"clause":..} or {"kind":"predicate","name":..}
    where the predicate is a function MATCHERS[name](case, fail) in the check module."""
    cid = case_id(case)
    for f in findings:
        m = f.get("matcher", {})
        if m.get("clause") and m["clause"] != fail["clause"]:
            continue
        if m.get("kind") == "case":
            if cid in m.get("case_ids", []):
                return f
        elif m.get("kind") == "predicate":
            fn = getattr(mod, "MATCHERS", {}).get(m.get("name"))
            if fn is not None and fn(case, fail):
                return f
    return None


def write_replay(prop, tier, case, fail) -> str:
    d = os.path.join(REPLAY_DIR, prop)
    os.makedirs(d, exist_ok=True)
    cid = case_id(case)
    path = os.path.join(d, f"{cid}.json")
    with open(path, "w") as f:
        json.dump({"property": prop, "tier": tier, "case_id": cid, "case": case, **fail}, f, indent=1,
                  default=str)
    return path


def run(modname: str, tier: str, seed: int, workers: Optional[int] = None, limit: Optional[int] = None) -> int:
    t0 = time.time()
    mod = _load(modname)
    prop = mod.ID
    workers = workers or int(os.environ.get("PV_WORKERS", "16"))
    per_case_timeout = getattr(mod, "CASE_TIMEOUT", 20)
    cases = list(mod.cases(tier))
    if limit:
        cases = cases[:limit]
    total = len(cases)
    indexed = list(enumerate(cases))
    nchunks = max(1, min(total, workers * 8))
    chunks = [indexed[i::nchunks] for i in range(nchunks)]
    # the seed only rotates the order in which shards are visited; the explored set is identical
    rot = seed % len(chunks) if chunks else 0
    chunks = chunks[rot:] + chunks[:rot]
    args = [(modname, c, per_case_timeout) for c in chunks if c]
    if workers > 1 and total > 1:
        with mp.get_context("fork").Pool(workers) as pool:
            parts = pool.map(_run_chunk, args, chunksize=1)
    else:
        parts = [_run_chunk(a) for a in args]

    agg = {"counters": Counter(), "outcomes": Counter(), "distinct": {}, "fails": [], "n": 0,
           "nontrivial": 0, "skipped": Counter(), "timeouts": 0, "errors": [], "samples": []}
    for p in parts:
        agg["counters"].update(p["counters"]); agg["outcomes"].update(p["outcomes"])
        for k, s in p["distinct"].items():
            agg["distinct"].setdefault(k, set()).update(s)
        agg["fails"].extend(p["fails"]); agg["n"] += p["n"]; agg["nontrivial"] += p["nontrivial"]
        agg["skipped"].update(p["skipped"]); agg["timeouts"] += p["timeouts"]
        agg["errors"].extend(p["errors"]); agg["samples"].extend(p["samples"])
        agg.setdefault("digests", {}).update(p.get("digests", {}))
    agg["fails"].sort(key=lambda f: f["index"])
    agg["samples"].sort(key=lambda c: json.dumps(c, sort_keys=True, default=str))
    agg["cases"] = cases
    extra: Dict[str, Any] = {}
    if hasattr(mod, "finish"):
        extra = mod.finish(agg, tier) or {}

    # determinism control (DESIGN §2.9): the first cases are re-run in a FRESH process; a different outcome is a
    # harness error (exit 2), never a violation
    nondeterministic = []
    if not os.environ.get("PV_NO_RECHECK") and not limit and agg.get("digests"):
        import subprocess
        k = min(RECHECK_K, total)
        p = subprocess.run([sys.executable, "-m", "pv.cli", prop, "--tier", tier, "--recheck", str(k)],
                           capture_output=True, text=True, cwd=VERIF,
                           env=dict(os.environ, PYTHONHASHSEED="0", PV_REEXEC="1", PV_NO_RECHECK="1"))
        try:
            again = json.loads(p.stdout.strip().splitlines()[-1])
            for i_s, dg in again.items():
                if agg["digests"].get(int(i_s)) != dg:
                    nondeterministic.append(int(i_s))
        except Exception:
            nondeterministic.append(-1)
        if nondeterministic:
            agg["errors"].append({"index": nondeterministic[0], "case": None,
                                  "trace": f"determinism control failed: cases {nondeterministic} gave a different outcome in a "
                                           f"fresh process\n{p.stderr[-500:]}"})

    findings = load_findings(prop)
    known_hits: Dict[str, int] = Counter()
    violations = []
    for f in agg["fails"]:
        kf = match_finding(findings, mod, f["case"], f["fail"])
        if kf is not None:
            known_hits[kf["id"]] += 1
        else:
            violations.append(f)

    for kid, n in sorted(known_hits.items()):
        what = next(k["what"] for k in findings if k["id"] == kid)
        print(f"KNOWN-FINDING: property={prop} {kid} {what} ({n} cases)")
    shown = 0
    seen_clause = Counter()
    for v in violations:
        seen_clause[v["fail"]["clause"]] += 1
        if seen_clause[v["fail"]["clause"]] > 3 or shown >= 12:
            continue
        path = write_replay(prop, tier, v["case"], v["fail"])
        print(f"VIOLATION property={prop} replay={path}")
        print(f"  clause={v['fail']['clause']} {v['fail']['detail'][:300]}")
        shown += 1
    if violations:
        print(f"  ({len(violations)} violating cases in total: {dict(seen_clause)})")
    for e in agg["errors"][:3]:
        print(f"HARNESS-ERROR in case {e['index']}: {e['trace']}", file=sys.stderr)

    c = agg["counters"]
    states = len(agg["distinct"].get("states", ())) or c.get("states", 0)
    transitions = c.get("transitions", 0)
    coverage = {
        "states": int(states),
        "transitions": int(transitions),
        "traces_validated_against_impl": int(c.get("validated", transitions)),
        "evaluations": int(agg["n"]),
        "distinct_nontrivial": int(agg["nontrivial"]),
        "rule": mod.RULE,
        "exhaustive": agg["timeouts"] == 0 and not agg["errors"] and not limit,
        "cases_in_space": total,
        "outcomes": dict(agg["outcomes"]),
        "counters": {k: int(v) for k, v in c.items()},
        "distinct": {k: len(v) for k, v in agg["distinct"].items()},
        "skipped": dict(agg["skipped"]),
        "timeouts": agg["timeouts"],
        "harness_errors": len(agg["errors"]),
        "known_findings_hit": dict(known_hits),
        "masked_by_known_findings": int(sum(known_hits.values())),
        "samples": agg["samples"][:5] or cases[:1],
        "workers": workers,
        "fresh_process_recheck": {"cases": min(RECHECK_K, total), "mismatches": len(nondeterministic)},
    }
    coverage.update(extra)
    ev = {
        "property_id": prop,
        "tier": tier,
        "seed": seed,
        "level": "model_checking",
        "coverage": coverage,
        "assumptions": list(getattr(mod, "ASSUMPTIONS", [])),
        "wall_s": round(time.time() - t0, 2),
        "violations": len(violations),
    }
    os.makedirs(EVIDENCE_DIR, exist_ok=True)
    with open(os.path.join(EVIDENCE_DIR, f"{prop}.json"), "w") as fh:
        json.dump(ev, fh, indent=1, default=str)
    print(f"{prop} tier={tier} seed={seed}: cases={agg['n']}/{total} nontrivial={agg['nontrivial']} "
          f"states={states} transitions={transitions} violations={len(violations)} "
          f"known={sum(known_hits.values())} timeouts={agg['timeouts']} errors={len(agg['errors'])} "
          f"wall={ev['wall_s']}s outcomes={dict(agg['outcomes'])}")
    if violations:
        return 1
    if agg["errors"]:
        return 2
    return 0


def recheck(modname: str, tier: str, k: int) -> int:
    """fresh-process re-run of the first k cases; prints {index: digest}"""
    mod = _load(modname)
    out = {}
    signal.signal(signal.SIGALRM, _alarm)
    for i, case in enumerate(mod.cases(tier)):
        if i >= k:
            break
        signal.alarm(getattr(mod, "CASE_TIMEOUT", 20))
        try:
            out[i] = result_digest(run_case(mod, case))
        except Exception as e:  # noqa
            out[i] = f"raised:{type(e).__name__}"
        signal.alarm(0)
    print(json.dumps(out))
    return 0


def replay(modname: str, path: str) -> int:
    mod = _load(modname)
    j = json.load(open(path))
    r = run_case(mod, j["case"])
    # failures that the committed known-findings file lists are reported as such and do not fail the replay
    findings = load_findings(j.get("property") or getattr(mod, "ID", ""))
    bad = 0
    for f in r.fails:
        kf = match_finding(findings, mod, j["case"], f.to_json())
        if kf is not None:
            print(f"KNOWN-FINDING: property={kf['property']} {kf['id']} (clause={f.clause})")
            continue
        bad += 1
        print(f"STILL FAILS clause={f.clause} {f.detail}")
        print(f"  expected={f.expected}\n  observed={f.observed}")
    if bad:
        return 1
    print("replay passes (no failure on this tree)")
    return 0
