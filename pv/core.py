"""Shared machinery for the V-domain checks (C01, C02, C03, C08, C18, C20): one program = one
domain text; S = reference reading of the source, D = the library's parse, P = reference reading
of abs(D).  Attribution rule: DESIGN §2.4."""
from fractions import Fraction
from typing import Dict, Optional

from . import sexp
from .absmap import abs_domain, AbsError
from .bridge import (guard, Raised, parse_domain, make_state, observe_state, operator)
from .refsem import (RefDomain, RefState, RefError, RefUndefined, Inconsistent, applicable, successor,
                     DEFAULT_EPS)

UNDEF = "undefined"      # the reference cannot evaluate (undefined fluent / division by zero)
ILL = "ill-formed"       # the reference rejects the text/structure
INCONS = "inconsistent"  # simultaneously firing effects conflict: outside C03's quantifier


DECOY_DOMAIN = """(define (domain decoy)
(:requirements :typing :negative-preconditions :universal-preconditions :conditional-effects)
(:types t2 t3 - object t1 - t2)
(:constants c - t2)
(:predicates (r) (p ?a - t2) (q ?a - t2 ?b - t1) (m ?a - t3))
(:functions (f) (g ?a - t2) (h ?a - t1 ?b - t2))
(:action a :parameters (?x - t1 ?y - t2)
 :precondition (and (p ?y) (forall (?z - t2) (or (p ?z) (q ?z ?x))))
 :effect (and (q ?y ?x) (forall (?z - t1) (when (p ?z) (not (p ?z)))) (increase (g ?y) (h ?x ?y)))))
"""
DECOY_PROBLEM = """(define (problem decoyp) (:domain decoy)
(:objects o1 - t1 o2 - t2 o3 - t3 o11 - t1)
(:init (p o1) (p o2) (p c) (q o2 o1) (m o3) (= (f) 3) (= (g o2) 1) (= (h o1 o2) 2) (= (h o1 o1) 5))
(:goal (and (p o1))))
"""
_decoy_done = False


def use_decoy_once():
    """Once per process, before the first program: a domain that uses the SAME type, predicate, function, constant and
    object names with another type tree (t1 below t2), other signatures and other values is parsed, its sub-type
    relation asked for every pair and its action grounded, tested and applied.  Nothing the library keeps from it may
    decide anything about a later domain."""
    global _decoy_done
    if _decoy_done:
        return
    _decoy_done = True
    try:
        from .bridge import parse_problem
        from pddl_plus_parser.multi_agent.common import create_initial_state
        D = parse_domain(DECOY_DOMAIN)
        P = parse_problem(DECOY_PROBLEM, D)
        for a in D.types.values():
            for b in D.types.values():
                a.is_sub_type(b)
        s0 = create_initial_state(P)
        for args in (["o1", "o2"], ["o11", "o1"], ["o1", "c"]):
            op = operator(D, "a", args, P.objects)
            op.is_applicable(s0)
            op.apply(s0, allow_inapplicable_actions=True)
    except Exception:  # noqa: the decoy is only there to be remembered wrongly
        pass


class Prog:
    def __init__(self, case: dict, parse=True):
        use_decoy_once()
        self.case = case
        self.text = case["domain"]
        self.objects: Dict[str, str] = dict(case["objects"])
        self.S = RefDomain.from_tree(sexp.read(self.text))
        self.objs = self.S.all_objects(self.objects)
        self.D = guard(parse_domain, self.text) if parse else None
        self.P: Optional[RefDomain] = None
        self.abs_error = None
        if parse and not isinstance(self.D, Raised):
            try:
                self.P = abs_domain(self.D)
            except AbsError as e:
                self.abs_error = str(e)

    @property
    def parsed(self) -> bool:
        return self.D is not None and not isinstance(self.D, Raised)

    def lib_state(self, st: RefState, D=None, order=None):
        D = D if D is not None else self.D
        return make_state(D, self.S.name, self.objects, st, constants=self.S.constants, order=order)

    def op(self, action: str, args, prob, D=None):
        D = D if D is not None else self.D
        return operator(D, action, args, prob.objects)


def ref_applicable(dom: RefDomain, action: str, args, st, objs, eps=DEFAULT_EPS):
    """True / False / UNDEF / ILL"""
    try:
        a = dom.actions[action]
        return applicable(dom, a, args, st, objs, eps)
    except RefUndefined:
        return UNDEF
    except (RefError, KeyError, IndexError, TypeError):
        return ILL


def ref_successor(dom: RefDomain, action: str, args, st, objs, eps=DEFAULT_EPS):
    """RefState / UNDEF / ILL / INCONS"""
    try:
        a = dom.actions[action]
        return successor(dom, a, args, st, objs, eps)
    except Inconsistent:
        return INCONS
    except RefUndefined:
        return UNDEF
    except (RefError, KeyError, IndexError, TypeError):
        return ILL


def close(a: Fraction, b: Fraction, tol=Fraction(1, 10 ** 9)) -> bool:
    return abs(a - b) <= tol * max(1, abs(a), abs(b))


def same_state(a: RefState, b: RefState, exact=True) -> bool:
    if a.atoms != b.atoms or set(a.fluents) != set(b.fluents):
        return False
    for k, v in a.fluents.items():
        if exact:
            if v != b.fluents[k]:
                return False
        elif not close(v, b.fluents[k]):
            return False
    return True


def show(x):
    if isinstance(x, RefState):
        return x.to_json()
    if isinstance(x, Raised):
        return x.to_json()
    return x
