"""Shared machinery for the V-domain checks (C01, C02, C03, C08, C18, C20): one program = one
domain text; S = reference reading of the source, D = the library's parse, P = reference reading
of abs(D).  Attribution rule: DESIGN §2.4."""
from fractions import Fraction
from typing import Dict, Optional

from . import sexp
from .absmap import abs_domain, AbsError
from .bridge import (guard, Raised, parse_domain, make_state, observe_state, operator)
from .refsem import (RefDomain, RefState, RefError, RefUndefined, Inconsistent, applicable, successor,
                     DEFAULT_EPS)

UNDEF = "undefined"      # the reference cannot evaluate (undefined fluent / division by zero)
ILL = "ill-formed"       # the reference rejects the text/structure
INCONS = "inconsistent"  # simultaneously firing effects conflict: outside C03's quantifier


class Prog:
    def __init__(self, case: dict, parse=True):
        self.case = case
        self.text = case["domain"]
        self.objects: Dict[str, str] = dict(case["objects"])
        self.S = RefDomain.from_tree(sexp.read(self.text))
        self.objs = self.S.all_objects(self.objects)
        self.D = guard(parse_domain, self.text) if parse else None
        self.P: Optional[RefDomain] = None
        self.abs_error = None
        if parse and not isinstance(self.D, Raised):
            try:
                self.P = abs_domain(self.D)
            except AbsError as e:
                self.abs_error = str(e)

    @property
    def parsed(self) -> bool:
        return self.D is not None and not isinstance(self.D, Raised)

    def lib_state(self, st: RefState, D=None, order=None):
        D = D if D is not None else self.D
        return make_state(D, self.S.name, self.objects, st, constants=self.S.constants, order=order)

    def op(self, action: str, args, prob, D=None):
        D = D if D is not None else self.D
        return operator(D, action, args, prob.objects)


def ref_applicable(dom: RefDomain, action: str, args, st, objs, eps=DEFAULT_EPS):
    """True / False / UNDEF / ILL"""
    try:
        a = dom.actions[action]
        return applicable(dom, a, args, st, objs, eps)
    except RefUndefined:
        return UNDEF
    except (RefError, KeyError, IndexError, TypeError):
        return ILL


def ref_successor(dom: RefDomain, action: str, args, st, objs, eps=DEFAULT_EPS):
    """RefState / UNDEF / ILL / INCONS"""
    try:
        a = dom.actions[action]
        return successor(dom, a, args, st, objs, eps)
    except Inconsistent:
        return INCONS
    except RefUndefined:
        return UNDEF
    except (RefError, KeyError, IndexError, TypeError):
        return ILL


def close(a: Fraction, b: Fraction, tol=Fraction(1, 10 ** 9)) -> bool:
    return abs(a - b) <= tol * max(1, abs(a), abs(b))


def same_state(a: RefState, b: RefState, exact=True) -> bool:
    if a.atoms != b.atoms or set(a.fluents) != set(b.fluents):
        return False
    for k, v in a.fluents.items():
        if exact:
            if v != b.fluents[k]:
                return False
        elif not close(v, b.fluents[k]):
            return False
    return True


def show(x):
    if isinstance(x, RefState):
        return x.to_json()
    if isinstance(x, Raised):
        return x.to_json()
    return x
