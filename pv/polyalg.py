"""Exact rational-function algebra over fractions.Fraction (reference, trusted; no sympy, no floats).

A monomial is a sorted tuple of (variable, exponent) pairs, exponent >= 1; () is the constant monomial.
A polynomial is a dict {monomial: Fraction} without zero entries.
A rational function is a pair (numerator, denominator) of polynomials, denominator not the zero
polynomial.  Fractions are *not* reduced (no multivariate gcd): identities are decided by
cross-multiplication, which is exact.

Numeric-expression trees are pv.sexp trees: an atom is a decimal numeral; a list whose head is one of
+ - * / is an operator application with exactly two operands, prefix operand order ((- a b) = a - b,
(/ a b) = a / b); any other list of atoms is a fluent and is used as a variable, keyed by the tuple
of its atoms.
"""
import re
from fractions import Fraction
from typing import Dict, Iterable, List, Optional, Tuple

Monomial = Tuple[Tuple[tuple, int], ...]
Poly = Dict[Monomial, Fraction]
Rat = Tuple[Poly, Poly]

OPS = ("+", "-", "*", "/")
NUMERAL = re.compile(r"^-?\d+(\.\d+)?$")
ONE_M: Monomial = ()


class TreeError(Exception):
    """The tree is not a numeric expression over binary + - * / (message says why)."""

    def __init__(self, kind, what):
        super().__init__(f"{kind}: {what}")
        self.kind = kind
        self.what = what


# ---------------------------------------------------------------------------------- polynomials

def p_const(c) -> Poly:
    c = Fraction(c)
    return {ONE_M: c} if c != 0 else {}


def p_var(v) -> Poly:
    return {((v, 1),): Fraction(1)}


def p_add(a: Poly, b: Poly) -> Poly:
    out = dict(a)
    for m, c in b.items():
        s = out.get(m, 0) + c
        if s == 0:
            out.pop(m, None)
        else:
            out[m] = s
    return out


def p_scale(a: Poly, k) -> Poly:
    k = Fraction(k)
    if k == 0:
        return {}
    return {m: c * k for m, c in a.items()}


def p_neg(a: Poly) -> Poly:
    return {m: -c for m, c in a.items()}


def p_sub(a: Poly, b: Poly) -> Poly:
    return p_add(a, p_neg(b))


def m_mul(m1: Monomial, m2: Monomial) -> Monomial:
    if not m1:
        return m2
    if not m2:
        return m1
    d = dict(m1)
    for v, e in m2:
        d[v] = d.get(v, 0) + e
    return tuple(sorted(d.items()))


def p_mul(a: Poly, b: Poly) -> Poly:
    out: Poly = {}
    for m1, c1 in a.items():
        for m2, c2 in b.items():
            m = m_mul(m1, m2)
            s = out.get(m, 0) + c1 * c2
            if s == 0:
                out.pop(m, None)
            else:
                out[m] = s
    return out


def p_abs(a: Poly) -> Poly:
    return {m: abs(c) for m, c in a.items()}


def p_is_zero(a: Poly) -> bool:
    return not a


def m_degree(m: Monomial) -> int:
    return sum(e for _, e in m)


def p_degree(a: Poly) -> int:
    return max((m_degree(m) for m in a), default=0)


def p_vars(a: Poly) -> set:
    return {v for m in a for v, _ in m}


def m_eval(m: Monomial, val: dict) -> Fraction:
    r = Fraction(1)
    for v, e in m:
        r *= Fraction(val[v]) ** e
    return r


def p_eval(a: Poly, val: dict) -> Fraction:
    return sum((c * m_eval(m, val) for m, c in a.items()), Fraction(0))


def p_abs_eval(a: Poly, val: dict) -> Fraction:
    """sum of |coefficient| * |monomial value|"""
    return sum((abs(c) * abs(m_eval(m, val)) for m, c in a.items()), Fraction(0))


def p_equal(a: Poly, b: Poly) -> bool:
    return a == b


# --------------------------------------------------------------------------- rational functions

def r_const(c) -> Rat:
    return p_const(c), p_const(1)


def r_var(v) -> Rat:
    return p_var(v), p_const(1)


def r_add(a: Rat, b: Rat) -> Rat:
    if a[1] == b[1]:
        return p_add(a[0], b[0]), a[1]
    return p_add(p_mul(a[0], b[1]), p_mul(b[0], a[1])), p_mul(a[1], b[1])


def r_neg(a: Rat) -> Rat:
    return p_neg(a[0]), a[1]


def r_sub(a: Rat, b: Rat) -> Rat:
    return r_add(a, r_neg(b))


def r_mul(a: Rat, b: Rat) -> Rat:
    return p_mul(a[0], b[0]), p_mul(a[1], b[1])


def r_div(a: Rat, b: Rat) -> Rat:
    if p_is_zero(b[0]):
        raise ZeroDivisionError("division by the zero function")
    return p_mul(a[0], b[1]), p_mul(a[1], b[0])


def r_equal(a: Rat, b: Rat) -> bool:
    return p_mul(a[0], b[1]) == p_mul(b[0], a[1])


def r_is_zero(a: Rat) -> bool:
    return p_is_zero(a[0])


def r_proportional(a: Rat, b: Rat) -> Optional[Fraction]:
    """The constant c with a == c * b as rational functions, or None.  (a == 0 gives c = 0; the
    caller decides whether a zero factor is acceptable.)"""
    x = p_mul(a[0], b[1])
    y = p_mul(b[0], a[1])
    if not x:
        return Fraction(0)
    if not y or set(x) != set(y):
        return None
    m0 = min(x)
    c = x[m0] / y[m0]
    return c if all(x[m] == c * y[m] for m in x) else None


def r_eval(a: Rat, val: dict) -> Optional[Fraction]:
    """Value of the *normal form* (None where its denominator vanishes).  Ground truth for a tree
    is eval_tree, which is undefined wherever any intermediate division is by zero."""
    d = p_eval(a[1], val)
    if d == 0:
        return None
    return p_eval(a[0], val) / d


# ------------------------------------------------------------------------------------- trees

def is_numeral(t) -> bool:
    return isinstance(t, str) and bool(NUMERAL.match(t))


def is_fluent(t) -> bool:
    return isinstance(t, list) and len(t) >= 1 and all(isinstance(x, str) for x in t) and t[0] not in OPS \
        and not is_numeral(t[0])


def validate(tree, allowed_fluents: Optional[Iterable[tuple]] = None) -> None:
    """Raises TreeError unless tree is built from binary + - * /, decimal numerals and fluents
    (from allowed_fluents when given)."""
    allowed = None if allowed_fluents is None else set(allowed_fluents)

    def go(t):
        if isinstance(t, str):
            if not is_numeral(t):
                raise TreeError("foreign-leaf", t)
            return
        if not t:
            raise TreeError("empty-list", "()")
        head = t[0]
        if isinstance(head, list):
            raise TreeError("non-binary-operator", f"list in head position: {t}")
        if head in OPS:
            if len(t) != 3:
                raise TreeError("non-binary-operator", f"{head} applied to {len(t) - 1} operands")
            go(t[1])
            go(t[2])
            return
        if head == "^" or head == "**":
            raise TreeError("power-operator", f"{t}")
        if not all(isinstance(x, str) for x in t):
            raise TreeError("non-binary-operator", f"unknown operator {head!r} in {t}")
        if is_numeral(head):
            raise TreeError("foreign-leaf", f"numeral in head position: {t}")
        if allowed is not None and tuple(t) not in allowed:
            raise TreeError("foreign-leaf", f"fluent {t} does not occur in the input")
    go(tree)


def fluents(tree) -> List[tuple]:
    """Distinct fluents in first-occurrence order."""
    out: List[tuple] = []

    def go(t):
        if isinstance(t, str):
            return
        if t and t[0] in OPS and len(t) == 3:
            go(t[1]); go(t[2])
        elif is_fluent(t):
            if tuple(t) not in out:
                out.append(tuple(t))
        else:
            for x in t[1:]:
                go(x)
    go(tree)
    return out


def numerals(tree) -> List[str]:
    out: List[str] = []

    def go(t):
        if isinstance(t, str):
            if is_numeral(t):
                out.append(t)
        elif t and t[0] in OPS:
            for x in t[1:]:
                go(x)
    go(tree)
    return out


def from_tree(tree) -> Rat:
    """Normal form of a validated tree.  ZeroDivisionError if a divisor is identically zero."""
    if isinstance(tree, str):
        return r_const(Fraction(tree))
    head = tree[0]
    if head in OPS:
        a, b = from_tree(tree[1]), from_tree(tree[2])
        if head == "+":
            return r_add(a, b)
        if head == "-":
            return r_sub(a, b)
        if head == "*":
            return r_mul(a, b)
        return r_div(a, b)
    return r_var(tuple(tree))


def eval_tree(tree, val: dict) -> Optional[Fraction]:
    """Exact value under val ({fluent tuple: Fraction}); None iff some division is by zero."""
    if isinstance(tree, str):
        return Fraction(tree)
    head = tree[0]
    if head in OPS:
        a = eval_tree(tree[1], val)
        if a is None:
            return None
        b = eval_tree(tree[2], val)
        if b is None:
            return None
        if head == "+":
            return a + b
        if head == "-":
            return a - b
        if head == "*":
            return a * b
        if b == 0:
            return None
        return a / b
    return Fraction(val[tuple(tree)])


# --------------------------------------------------------------------- error-bounded normal form

def from_tree_with_error(tree, radius: Fraction) -> Tuple[Poly, Poly, Poly, Poly]:
    """(N, D, EN, ED): the normal form N/D of the tree and coefficient-wise bounds EN, ED such that
    for every tree of the same shape whose numerals differ from this tree's by at most `radius`
    each, with normal form N*/D* computed the same way, |N - N*| <= EN and |D - D*| <= ED
    coefficient-wise.  (Interval arithmetic on coefficients; second-order terms included.)"""
    radius = Fraction(radius)
    if isinstance(tree, str):
        return p_const(Fraction(tree)), p_const(1), (p_const(radius) if radius else {}), {}
    head = tree[0]
    if head not in OPS:
        return p_var(tuple(tree)), p_const(1), {}, {}
    n1, d1, en1, ed1 = from_tree_with_error(tree[1], radius)
    n2, d2, en2, ed2 = from_tree_with_error(tree[2], radius)

    def mul(a, ea, b, eb):
        # |ab - a*b*| <= |a| eb + ea |b| + ea eb   (with |a*| <= |a| + ea)
        return p_mul(a, b), p_add(p_add(p_mul(p_abs(a), eb), p_mul(ea, p_abs(b))), p_mul(ea, eb))

    if head in "+-":
        if d1 == d2 and not ed1 and not ed2:
            n = p_add(n1, n2) if head == "+" else p_sub(n1, n2)
            return n, d1, p_add(en1, en2), {}
        a, ea = mul(n1, en1, d2, ed2)
        b, eb = mul(n2, en2, d1, ed1)
        d, ed = mul(d1, ed1, d2, ed2)
        n = p_add(a, b) if head == "+" else p_sub(a, b)
        return n, d, p_add(ea, eb), ed
    if head == "*":
        n, en = mul(n1, en1, n2, en2)
        d, ed = mul(d1, ed1, d2, ed2)
        return n, d, en, ed
    if p_is_zero(n2):
        raise ZeroDivisionError("division by the zero function")
    n, en = mul(n1, en1, d2, ed2)
    d, ed = mul(d1, ed1, n2, en2)
    return n, d, en, ed


def feasible_scale(a: Poly, b: Poly, e1: Poly, e2: Poly, positive: bool = True, fixed=None,
                   floor: Fraction = Fraction(0)):
    """Is there a scale s (s > 0; or s == fixed) with |s*a[m] - b[m]| <= e1[m] + s*e2[m] for every
    monomial m, where e1[m] is raised to `floor` for monomials absent from b (a term may vanish
    from the output only if its coefficient is within floor of 0)?  Returns (lo, hi) of the feasible
    s-interval, or None.  positive=False looks for s < 0 instead (returned as negative bounds)."""
    if not positive:
        got = feasible_scale(p_neg(a), b, e1, e2, True, None if fixed is None else -fixed, floor)
        return None if got is None else (-got[1] if got[1] is not None else None, -got[0])
    lo, hi = Fraction(0), None          # s in (0, +inf), hi None = unbounded
    for m in set(a) | set(b) | set(e1) | set(e2):
        am, bm = a.get(m, Fraction(0)), b.get(m, Fraction(0))
        x1 = e1.get(m, Fraction(0))
        if m not in b and x1 < floor:
            x1 = floor
        x2 = e2.get(m, Fraction(0))
        # s*(am - x2) <= bm + x1   and   s*(am + x2) >= bm - x1
        for k, t, le in ((am - x2, bm + x1, True), (am + x2, bm - x1, False)):
            if k == 0:
                if (le and t < 0) or (not le and t > 0):
                    return None
                continue
            q = t / k
            upper = (k > 0) == le
            if upper:
                hi = q if hi is None or q < hi else hi
            else:
                lo = q if q > lo else lo
    if fixed is not None:
        fixed = Fraction(fixed)
        if fixed >= lo and (hi is None or fixed <= hi) and fixed > 0:
            return fixed, fixed
        return None
    if hi is not None and (hi <= 0 or lo > hi):
        return None
    return lo, hi


def with_unit_factors(tree):
    """The tree with every additive term that contains no numeral multiplied by the numeral 1
    (a printer may leave out a factor that rounds to 1; the error analysis must see that numeral).
    Additive terms are the maximal subtrees reached from the root through + and - only."""
    if isinstance(tree, str):
        return tree
    if tree[0] in ("+", "-"):
        return [tree[0], with_unit_factors(tree[1]), with_unit_factors(tree[2])]
    if numerals(tree):
        return tree
    return ["*", tree, "1"]


def fmt_poly(a: Poly) -> str:
    if not a:
        return "0"
    parts = []
    for m in sorted(a, key=lambda m: (m_degree(m), m)):
        mono = "*".join(("(" + " ".join(v) + ")" if isinstance(v, tuple) else str(v)) + (f"^{e}" if e > 1 else "")
                        for v, e in m)
        c = a[m]
        cs = str(c) if c.denominator == 1 else f"{c.numerator}/{c.denominator}"
        parts.append(f"{cs}*{mono}" if mono else cs)
    return " + ".join(parts)


def _selftest():
    F = Fraction
    x, y = ["x"], ["y", "?a"]
    t1 = ["*", ["+", x, y], ["-", x, y]]
    t2 = ["-", ["*", x, x], ["*", y, y]]
    assert r_equal(from_tree(t1), from_tree(t2))
    assert r_proportional(from_tree(["*", "2", t1]), from_tree(t2)) == 2
    assert r_proportional(from_tree(["+", t1, "1"]), from_tree(t2)) is None
    # (- a b) = a - b, (/ a b) = a / b
    assert eval_tree(["-", "3", "1"], {}) == 2 and eval_tree(["/", "3", "2"], {}) == F(3, 2)
    assert eval_tree(["/", x, ["-", y, y]], {("x",): 1, ("y", "?a"): 2}) is None
    # x/y + y/x == (x^2 + y^2)/(x y)
    lhs = from_tree(["+", ["/", x, y], ["/", y, x]])
    rhs = from_tree(["/", ["+", ["*", x, x], ["*", y, y]], ["*", x, y]])
    assert r_equal(lhs, rhs) and not r_equal(lhs, from_tree(["/", x, y]))
    val = {("x",): F(1, 2), ("y", "?a"): F(-2)}
    assert r_eval(lhs, val) == eval_tree(["+", ["/", x, y], ["/", y, x]], val) == F(1, 2) / -2 + -2 / F(1, 2)
    # x*x/x == x as functions although undefined at 0 as a tree
    assert r_equal(from_tree(["/", ["*", x, x], x]), from_tree(x))
    assert eval_tree(["/", ["*", x, x], x], {("x",): 0}) is None
    for bad, kind in ((["^", x, "2"], "power-operator"), (["+", x, y, x], "non-binary-operator"),
                      (["+", x, "none"], "foreign-leaf"), (["+", x, ["z"]], "foreign-leaf"),
                      (["+", x], "non-binary-operator"), (["*", x, "1e-05"], "foreign-leaf")):
        try:
            validate(bad, [("x",), ("y", "?a")])
            raise AssertionError(bad)
        except TreeError as e:
            assert e.kind == kind, (bad, e.kind)
    validate(["/", "1", ["*", x, "-0.2500"]], [("x",)])
    # error-bounded normal form: 0.33*x + 1 against x/3 + 1
    n, d, en, ed = from_tree_with_error(["+", ["*", x, "0.33"], "1"], F(1, 200))
    a = from_tree(["+", ["/", x, "3"], "1"])
    assert feasible_scale(p_mul(a[0], d), p_mul(n, a[1]), p_mul(en, p_abs(a[1])), p_mul(p_abs(a[0]), ed),
                          fixed=1) == (1, 1)
    assert feasible_scale(p_mul(a[0], d), p_mul(n, a[1]), {}, {}, fixed=1) is None
    # 2x - 1 is not a rounding of 2.99999x - 1 at 2 digits for any positive scale; 2x <= 0 is one of 2.99999x <= 0
    a = from_tree(["-", ["*", x, "2.99999"], "1"])[0]
    n, d, en, ed = from_tree_with_error(["-", ["*", x, "2"], "1"], F(1, 200))
    assert feasible_scale(a, n, en, {}) is None
    a = from_tree(["*", x, "2.99999"])[0]
    n, d, en, ed = from_tree_with_error(["*", x, "2"], F(1, 200))
    lo, hi = feasible_scale(a, n, en, {})
    assert lo < F(2, 3) < hi and feasible_scale(a, n, en, {}, fixed=1) is None
    # negative scale only when asked for
    assert feasible_scale(p_neg(a), n, en, {}) is None and feasible_scale(p_neg(a), n, en, {}, positive=False)
    # a vanished term needs a floor
    a = from_tree(["+", ["*", x, "0.12"], "0.005"])[0]
    n, d, en, ed = from_tree_with_error(["*", x, "0.12"], F(1, 200))
    assert feasible_scale(a, n, en, {}, fixed=1) is None
    assert feasible_scale(a, n, en, {}, fixed=1, floor=F(1, 200)) == (1, 1)
    print("polyalg selftest ok")


if __name__ == "__main__":
    _selftest()
