"""Self-tests of the trusted base (reference reader + semantics) on hand-computed cases.
Run by MANIFEST.setup_cmd; exits non-zero on any mismatch."""
import sys
from fractions import Fraction as F

from . import sexp
from .refsem import (RefDomain, RefState, holds, successor, applicable, Inconsistent, RefError,
                     RefUndefined, non_interfering, binding)

DOM = """
(define (domain d) (:requirements :typing)
 (:types t1 t3 - object t2 - t1)
 (:constants c - t1)
 (:predicates (r) (p ?a - t1) (q ?a - t1 ?b - t1))
 (:functions (f) (g ?a - t1))
 (:action a :parameters (?x - t1 ?y - t1)
   :precondition (and (p ?x) (or (not (q ?x ?y)) (r)) (forall (?z - t1) (or (p ?z) (= ?z ?y))) (>= (g ?x) 1))
   :effect (and (not (p ?x)) (p ?x) (q ?x ?y) (increase (f) (g ?x))
                (when (r) (assign (g ?x) (f)))
                (forall (?z - t1) (when (q ?z ?z) (not (q ?z ?z)))))))
"""


def main():
    assert sexp.read("(A ;c (\n b\t(C))") == ["a", "b", ["c"]]
    for bad in ["(a", "a)", "(a) b", "(a))", ""]:
        try:
            sexp.read(bad)
        except sexp.SexpError:
            continue
        raise AssertionError(bad)
    d = RefDomain.from_tree(sexp.read(DOM))
    assert d.subtype("t2", "t1") and d.subtype("t2", "object") and not d.subtype("t1", "t2")
    assert not d.subtype("t3", "t1")
    objs = d.all_objects({"o1": "t1", "o2": "t2", "o3": "t3"})
    assert d.range_of("t1", objs) == ["o1", "o2", "c"]
    a = d.actions["a"]
    st = RefState([("p", "o1"), ("p", "o2"), ("p", "c"), ("q", "o2", "o2")],
                  {("f",): F(10), ("g", "o1"): F(1), ("g", "o2"): F(0)})
    assert applicable(d, a, ("o1", "o2"), st, objs)
    # forall fails when (p c) is missing and c != ?y
    st2 = RefState(st.atoms - {("p", "c")}, st.fluents)
    assert not applicable(d, a, ("o1", "o2"), st2, objs)
    assert applicable(d, a, ("o1", "c"), st2, objs)
    # tolerance: (>= 0.99995 1) holds with eps 1e-4, (>= 0.9998 1) does not
    b = binding(a, ("o1", "o2"))
    assert holds(d, [">=", ["g", "?x"], "1"], b, RefState([], {("g", "o1"): F("0.99995")}), objs)
    assert not holds(d, [">=", ["g", "?x"], "1"], b, RefState([], {("g", "o1"): F("0.9998")}), objs)
    assert not holds(d, [">", ["g", "?x"], "1"], b, RefState([], {("g", "o1"): F(1)}), objs)
    s1 = successor(d, a, ("o1", "o2"), st, objs)
    # delete-then-add keeps (p o1); when (r) does not fire; forall deletes (q o2 o2); f += g(o1) (pre-state)
    assert ("p", "o1") in s1.atoms and ("q", "o1", "o2") in s1.atoms and ("q", "o2", "o2") not in s1.atoms
    assert s1.fluents[("f",)] == 11 and s1.fluents[("g", "o1")] == 1
    st3 = RefState(st.atoms | {("r",)}, st.fluents)
    s3 = successor(d, a, ("o1", "o2"), st3, objs)
    assert s3.fluents[("g", "o1")] == 10 and s3.fluents[("f",)] == 11  # rhs read in the pre-state
    try:
        successor(d, a, ("o2", "o2"), RefState(st.atoms, st.fluents), objs)  # adds (q o2 o2), forall deletes it
        raise AssertionError("expected Inconsistent")
    except Inconsistent:
        pass
    try:
        holds(d, ["zz", "?x"], b, st, objs)
        raise AssertionError
    except RefError:
        pass
    try:
        holds(d, [">", ["g", "?y"], "1"], b, RefState([], {}), objs)
        raise AssertionError
    except RefUndefined:
        pass
    print("pv.selftest: ok")
    return 0


if __name__ == "__main__":
    sys.exit(main())
