"""Cooperative thread scheduler for real threading.Thread objects (DESIGN §2.8).

Scheduling point = a 'line' trace event whose code object lives under the library directory.  Exactly
one thread holds the baton.  A schedule is a list of (global step at which the running thread is
pre-empted, thread to switch to); with no entry the running thread runs to completion, then the lowest
unfinished thread runs.  `run` returns (results per thread, steps per thread, total steps)."""
import os
import sys
import threading
from typing import Callable, List, Tuple


class Deadlock(Exception):
    pass


class Controller:
    def __init__(self, fns: List[Callable], schedule: List[Tuple[int, int]], lib_dir: str, first: int = 0):
        self.fns = fns
        self.schedule = dict(schedule)
        self.lib_dir = lib_dir
        self.n = len(fns)
        self.sem = [threading.Semaphore(0) for _ in fns]
        self.done = [False] * self.n
        self.results = [None] * self.n
        self.steps = [0] * self.n
        self.total = 0
        self.current = first
        self.trace_log: List[int] = []
        self.first = first

    # -- tracing -----------------------------------------------------------------------------------
    def _global_trace(self, tid):
        lib = self.lib_dir

        def local(frame, event, arg):
            if event == "line":
                self.point(tid)
            return local

        def glob(frame, event, arg):
            if event == "call" and frame.f_code.co_filename.startswith(lib):
                return local
            return None
        return glob

    def point(self, tid):
        step = self.total
        self.total += 1
        self.steps[tid] += 1
        target = self.schedule.get(step)
        if target is not None and target != tid and not self.done[target]:
            self.switch(tid, target)

    def switch(self, me, target):
        self.current = target
        self.trace_log.append(target)
        self.sem[target].release()
        self.sem[me].acquire()

    def _body(self, tid):
        self.sem[tid].acquire()
        sys.settrace(self._global_trace(tid))
        try:
            self.results[tid] = ("ok", self.fns[tid]())
        except BaseException as e:  # noqa
            self.results[tid] = ("raised", type(e).__name__, str(e)[:200])
        finally:
            sys.settrace(None)
            self.done[tid] = True
            nxt = next((i for i in range(self.n) if not self.done[i]), None)
            if nxt is not None:
                self.current = nxt
                self.sem[nxt].release()
            else:
                self.finished.release()

    def run(self, timeout=60):
        self.finished = threading.Semaphore(0)
        threads = [threading.Thread(target=self._body, args=(i,), daemon=True) for i in range(self.n)]
        for t in threads:
            t.start()
        self.sem[self.first].release()
        if not self.finished.acquire(timeout=timeout):
            raise Deadlock("threads did not finish")
        for t in threads:
            t.join(timeout=5)
        return self.results, list(self.steps), self.total


def run(fns, schedule=(), lib_dir=None, first=0):
    lib_dir = lib_dir or os.path.join(os.environ.get("PV_REPO", "/repo"), "pddl_plus_parser")
    return Controller(fns, list(schedule), lib_dir, first).run()
