"""Subprocess worker for C12's configuration space: EPSILON / NUMERIC_PRECISION are read from the
environment when the library is imported, so each configuration needs its own interpreter.
stdin: JSON list of queries; stdout: JSON list of answers."""
import json
import sys


def main():
    from pv.bridge import guard, Raised, parse_domain, parse_problem, operator
    from pddl_plus_parser.lisp_parsers import PDDLTokenizer
    from pddl_plus_parser.models import construct_expression_tree, NumericalExpressionTree
    from pddl_plus_parser.multi_agent.common import create_initial_state
    queries = json.load(sys.stdin)
    out = []
    doms = {}
    for q in queries:
        if q["kind"] == "cmp":
            op = q["op"]
            if op not in doms:
                doms[op] = parse_domain(
                    f"(define (domain c) (:requirements :numeric-fluents) (:predicates (r)) (:functions (f) (g)) "
                    f"(:action a :parameters () :precondition (and ({op} (f) (g))) :effect (and (r))))")
            D = doms[op]

            def run():
                P = parse_problem(f"(define (problem p) (:domain c) (:objects) (:init (= (f) {q['a']}) (= (g) {q['b']})) "
                                  f"(:goal (and)))", D)
                return operator(D, "a", [], P.objects).is_applicable(create_initial_state(P))
            r = guard(run)
            out.append(r if not isinstance(r, Raised) else r.to_json())
        elif q["kind"] == "print":
            def run():
                funcs = parse_domain("(define (domain c) (:requirements :numeric-fluents :typing) (:types t1 - object) "
                                     "(:predicates (r)) (:functions (f) (g ?a - t1)))").functions
                tree = NumericalExpressionTree(construct_expression_tree(PDDLTokenizer(pddl_str=q["expr"]).parse(), funcs))
                text = tree.to_pddl() if q["digits"] is None else tree.to_pddl(q["digits"])
                # the library's own reader must accept its output
                again = NumericalExpressionTree(construct_expression_tree(PDDLTokenizer(pddl_str=text).parse(), funcs))
                return {"text": text, "reread": again.to_pddl(12)}
            r = guard(run)
            out.append(r if not isinstance(r, Raised) else r.to_json())
    json.dump(out, sys.stdout)


if __name__ == "__main__":
    main()
