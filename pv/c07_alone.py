"""Fresh-interpreter helper for C07: executes ONE event as the first thing a process ever does with the
library and prints its observation.  Used only to arbitrate a disagreement between an event's result
inside a history and the reference answer: if the call made alone agrees with the history, the
disagreement is the evaluator's (C02/C03), not an impurity."""
import json
import sys


def main():
    q = json.load(sys.stdin)
    from pv.bridge import guard, Raised, parse_domain, parse_problem, observe_state, operator, problem_text
    from pv.core import show
    from pv.checks import c07
    from pv.gens import minidoms as md
    from pv.refsem import RefState
    from pddl_plus_parser.multi_agent.common import create_initial_state
    dt, pt = md.ALL["cond"]
    if q["kind"] == "variant":
        w = c07.WorldC07()
        key, obs = c07.do_event(w, ["variant", q["call"]])
        print(json.dumps(obs, default=str))
        return
    S, RP, objs = c07.ref_world("main", dt, pt)
    D = parse_domain(dt)
    st = RefState.from_json(q["state"])
    P = parse_problem(problem_text(S.name, RP.objects, st), D)
    ls = create_initial_state(P)
    name, args = c07.CALLS[q["call"]]
    op = operator(D, name, list(args), P.objects)
    if q["kind"] == "is_applicable":
        print(json.dumps(show(guard(op.is_applicable, ls)), default=str))
    else:
        res = guard(lambda: op.apply(ls, **c07.FLAGS[q["flags"]]))
        obs = guard(observe_state, res) if not isinstance(res, Raised) else res
        print(json.dumps(show(obs), default=str))


if __name__ == "__main__":
    main()
