"""Abstraction function: parsed library objects -> reference trees (RefDomain).

Used for *attribution only* (DESIGN §2.4): it tells whether a behavioural disagreement between the
implementation and the source text is already present in what the parser produced (parser's
fault, C01) or appears only when the evaluator runs (C02/C03/C20).  A disagreement is never
reported on the strength of this walk alone.
"""
from .refsem import RefDomain, RefAction


class AbsError(Exception):
    pass


def _num(v) -> str:
    if isinstance(v, bool):
        raise AbsError("bool in expression")
    if isinstance(v, int):
        return str(v)
    if isinstance(v, float):
        if v.is_integer():
            return str(int(v))
        return repr(v)
    raise AbsError(f"bad numeric leaf {v!r}")


def abs_expr(node):
    from pddl_plus_parser.models import PDDLFunction
    v = node.value
    kids = list(node.children)
    if not kids:
        if isinstance(v, PDDLFunction):
            # the positional argument list where the object carries one (a name-keyed signature holds a repeated
            # argument only once)
            args = getattr(v, "arguments", None)
            return [v.name] + (list(args) if args is not None else list(v.signature.keys()))
        return _num(v)
    if not isinstance(v, str):
        raise AbsError("operator node without a string value")
    return [v] + [abs_expr(k) for k in kids]


def abs_literal(p):
    atom = [p.name] + list(p.signature.keys())
    return atom if p.is_positive else ["not", atom]


def abs_condition(c):
    from pddl_plus_parser.models import (Predicate, NumericalExpressionTree, Precondition,
                                         UniversalPrecondition)
    if isinstance(c, UniversalPrecondition):
        return ["forall", [c.quantified_parameter, "-", c.quantified_type.name], abs_junction(c)]
    if isinstance(c, Precondition):
        return abs_junction(c)
    if isinstance(c, Predicate):
        return abs_literal(c)
    if isinstance(c, NumericalExpressionTree):
        return abs_expr(c.root)
    raise AbsError(f"unknown operand {type(c).__name__}")


def _sorted_trees(trees):
    from .sexp import dumps
    return sorted(trees, key=dumps)


def abs_junction(pre):
    out = [abs_condition(o) for o in pre.operands]
    out += [["=", a, b] for a, b in pre.equality_preconditions]
    out += [["not", ["=", a, b]] for a, b in pre.inequality_preconditions]
    return [pre.binary_operator] + _sorted_trees(out)


def abs_conditional(ce):
    body = [abs_literal(e) for e in ce.discrete_effects] + [abs_expr(e.root) for e in ce.numeric_effects]
    cond = abs_junction(ce.antecedents.root) if ce.antecedents is not None else ["and"]
    return ["when", cond, ["and"] + _sorted_trees(body)]


def abs_action(a) -> RefAction:
    params = [(n, t.name) for n, t in a.signature.items()]
    pre = abs_junction(a.preconditions.root)
    eff = [abs_literal(e) for e in a.discrete_effects] + [abs_expr(e.root) for e in a.numeric_effects]
    eff += [abs_conditional(ce) for ce in a.conditional_effects]
    for ue in a.universal_effects:
        for ce in ue.conditional_effects:
            eff.append(["forall", [ue.quantified_parameter, "-", ue.quantified_type.name], abs_conditional(ce)])
    return RefAction(a.name, params, pre, ["and"] + _sorted_trees(eff))


def abs_domain(d) -> RefDomain:
    try:
        r = RefDomain()
        r.name = d.name
        r.requirements = list(d.requirements)
        for n, t in d.types.items():
            if n == "object":
                continue
            r.parent[n] = t.parent.name if t.parent is not None else "object"
            r.declared_types.append(n)
        for n, c in d.constants.items():
            r.constants[n] = c.type.name
        for n, p in d.predicates.items():
            r.predicates[n] = [(k, t.name) for k, t in p.signature.items()]
        for n, f in d.functions.items():
            r.functions[n] = [(k, t.name) for k, t in f.signature.items()]
        for n, a in d.actions.items():
            r.actions[n] = abs_action(a)
        return r
    except AbsError:
        raise
    except Exception as e:  # a refactored object model: abstraction unavailable, never an alarm
        raise AbsError(f"{type(e).__name__}: {e}")
