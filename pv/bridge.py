"""Drives the real library (always the working tree under /repo) and turns its results into neutral
observations: RefStates read from serialize() text by the independent reader, booleans, exception
class names.  No library object leaves this module except opaque handles."""
import atexit
import logging
import os
import shutil
import sys
import tempfile
from fractions import Fraction
from pathlib import Path
from typing import Dict, List, Optional, Tuple

REPO = os.environ.get("PV_REPO", "/repo")
if REPO not in sys.path:
    sys.path.insert(0, REPO)
os.environ.setdefault("PDDL_PLUS_PARSER_VERIF", "1")

logging.disable(logging.CRITICAL)

import pddl_plus_parser  # noqa: E402

_lib_file = os.path.realpath(pddl_plus_parser.__file__)
if not _lib_file.startswith(os.path.realpath(REPO) + os.sep):
    raise RuntimeError(f"library under test is {_lib_file}, expected under {REPO}")

from pddl_plus_parser.lisp_parsers import DomainParser, ProblemParser, PDDLTokenizer, TrajectoryParser  # noqa: E402
from pddl_plus_parser.models import Operator, State, Domain, Problem  # noqa: E402
from pddl_plus_parser.multi_agent.common import create_initial_state  # noqa: E402

from . import sexp  # noqa: E402
from .refsem import RefState, RefError  # noqa: E402

_scratch: Optional[str] = None
_counter = 0


def scratch_dir() -> str:
    global _scratch
    if _scratch is None or not os.path.isdir(_scratch):
        base = "/dev/shm" if os.path.isdir("/dev/shm") and os.access("/dev/shm", os.W_OK) else None
        _scratch = tempfile.mkdtemp(prefix="pv_", dir=base)
        atexit.register(shutil.rmtree, _scratch, ignore_errors=True)
    return _scratch


def write_tmp(text: str, suffix=".pddl", newline="") -> Path:
    global _counter
    _counter += 1
    p = Path(scratch_dir()) / f"f{os.getpid()}_{_counter % 64}{suffix}"
    with open(p, "wt", encoding="utf-8", newline=newline) as f:
        f.write(text)
    return p


class Raised:
    """An exception outcome.  Only the class name is recorded; no property demands a specific type."""

    def __init__(self, exc: BaseException):
        self.type = type(exc).__name__
        self.msg = str(exc)[:200]

    def __repr__(self):
        return f"Raised({self.type}: {self.msg})"

    def to_json(self):
        return {"raised": self.type, "msg": self.msg}


def guard(fn, *a, **kw):
    """Run fn; return its value or Raised.  KeyboardInterrupt/SystemExit/timeouts propagate."""
    try:
        return fn(*a, **kw)
    except (KeyboardInterrupt, SystemExit, TimeoutError):
        raise
    except RecursionError as e:
        return Raised(e)
    except Exception as e:  # noqa
        return Raised(e)


# ------------------------------------------------------------------------------------------------


def parse_domain(text: str, **kw) -> Domain:
    return DomainParser(write_tmp(text), **kw).parse_domain()


def parse_problem(text: str, domain: Domain) -> Problem:
    return ProblemParser(write_tmp(text, ".prob.pddl"), domain).parse_problem()


def tokenize_str(text: str):
    return PDDLTokenizer(pddl_str=text).parse()


def tokenize_file(text: str):
    return PDDLTokenizer(file_path=write_tmp(text, ".tok")).parse()


def fmt_num(v: Fraction) -> str:
    """A numeral the library's float() reads back exactly for dyadic / short-decimal values."""
    if v.denominator == 1:
        return str(v.numerator)
    f = float(v)
    s = repr(f)
    if "e" in s or "E" in s:
        from decimal import Decimal
        s = format(Decimal(s), "f")  # plain decimal notation without losing digits
    return s


def problem_text(dom_name: str, objects: Dict[str, str], st: RefState, goal="(and)", name="prob",
                 typed=True) -> str:
    objs = " ".join(f"{o} - {t}" if typed else o for o, t in objects.items())
    items = []
    for k, v in st.fluents.items():
        items.append(f"(= ({' '.join(k)}) {fmt_num(v)})")
    for a in sorted(st.atoms):
        items.append(f"({' '.join(a)})")
    return (f"(define (problem {name}) (:domain {dom_name})\n(:objects {objs})\n"
            f"(:init {' '.join(items)})\n(:goal {goal}))\n")


def make_state(domain: Domain, dom_name: str, objects: Dict[str, str], st: RefState, typed=True,
               constants=(), order=None) -> Tuple[State, Problem]:
    """Build a library State holding exactly st, through the problem parser (the public route a
    user takes).  `objects` must not contain domain constants.  `order` = a permutation of the object
    names (the declaration order of :objects is the iteration order of Problem.objects)."""
    objs = {o: t for o, t in objects.items() if o not in constants}
    if order is not None:
        objs = {o: objs[o] for o in order if o in objs}
    prob = parse_problem(problem_text(dom_name, objs, st, typed=typed), domain)
    return create_initial_state(prob), prob


def observe_state(state: State) -> RefState:
    """Read a library state the way the properties prescribe: serialize() re-read independently."""
    tree = sexp.read(state.serialize())
    return RefState.from_state_tree(tree)


def observe_state_dicts(state: State) -> RefState:
    """Second observation, through the public dicts."""
    atoms = set()
    for preds in state.state_predicates.values():
        for p in preds:
            t = sexp.read(p.untyped_representation)
            atoms.add(tuple(t))
    fl = {}
    for f in state.state_fluents.values():
        t = sexp.read(f.state_representation)
        fl[tuple(t[1])] = Fraction(t[2])
    return RefState(atoms, fl)


def operator(domain: Domain, action_name: str, args, problem_objects) -> Operator:
    return Operator(domain.actions[action_name], domain, list(args), problem_objects)
