"""Multi-agent mini-domains (DESIGN §4 C15/C16): the executing agent of a call is its first argument that is an agent
(ma1-ma3: the first argument; ma4: an item comes first)."""
from .. import sexp
from ..refsem import RefDomain, RefProblem

REQ = "(:requirements :typing :negative-preconditions :numeric-fluents :conditional-effects)"

MA1 = (f"""(define (domain ma1)
{REQ}
(:types agent item - object)
(:predicates (lit) (busy ?a - agent) (free ?i - item) (has ?a - agent ?i - item))
(:action check :parameters (?a - agent) :precondition (and (not (lit))) :effect (and (busy ?a)))
(:action light :parameters (?a - agent) :precondition (and (not (lit))) :effect (and (lit)))
(:action take :parameters (?a - agent ?i - item)
  :precondition (and (free ?i) (not (busy ?a))) :effect (and (not (free ?i)) (has ?a ?i)))
(:action drop :parameters (?a - agent ?i - item)
  :precondition (and (has ?a ?i)) :effect (and (free ?i) (not (has ?a ?i)) (not (busy ?a))))
(:action pass :parameters (?a - agent ?b - agent ?i - item)
  :precondition (and (has ?a ?i)) :effect (and (not (has ?a ?i)) (has ?b ?i)))
(:action dim :parameters () :precondition (and (lit)) :effect (and (not (lit)))))
""", """(define (problem ma1p) (:domain ma1)
(:objects {agents} - agent i1 i2 - item)
(:init (free i1) (free i2))
(:goal (and (lit))))
""")

MA2 = (f"""(define (domain ma2)
{REQ}
(:types agent - object)
(:predicates (done ?a - agent))
(:functions (fuel ?a - agent) (total))
(:action work :parameters (?a - agent)
  :precondition (and (>= (fuel ?a) 1)) :effect (and (decrease (fuel ?a) 1) (done ?a)))
(:action log :parameters (?a - agent)
  :precondition (and (<= (total) 2)) :effect (and (increase (total) 1)))
(:action refuel :parameters (?a - agent)
  :precondition (and (< (fuel ?a) 2) (>= (total) 1)) :effect (and (increase (fuel ?a) 1) (not (done ?a))))
(:action reset :parameters (?a - agent)
  :precondition (and (>= (total) 2)) :effect (and (assign (total) 0))))
""", """(define (problem ma2p) (:domain ma2)
(:objects {agents} - agent)
(:init {fuel} (= (total) 1))
(:goal (and (done a1))))
""")

MA3 = (f"""(define (domain ma3)
{REQ}
(:types agent item - object crate - item)
(:predicates (own ?a - agent ?i - item) (clean ?i - item) (idle ?a - agent))
(:action wash :parameters (?a - agent)
  :precondition (and (idle ?a))
  :effect (and (not (idle ?a)) (forall (?i - item) (when (own ?a ?i) (clean ?i)))))
(:action grab :parameters (?a - agent ?i - item)
  :precondition (and (not (own ?a ?i))) :effect (and (own ?a ?i) (when (clean ?i) (idle ?a))))
(:action rest :parameters (?a - agent)
  :precondition (and (forall (?i - item) (and (clean ?i)))) :effect (and (idle ?a))))
""", """(define (problem ma3p) (:domain ma3)
(:objects {agents} - agent i1 - item i2 - crate)
(:init (idle a1) (own a1 i1) (own a2 i2))
(:goal (and (clean i1))))
""")

# the numeric domain again, declaring its functions under :action-costs only (no :numeric-fluents / :fluents flag)
MA2B = (MA2[0].replace("(define (domain ma2)", "(define (domain ma2b)").replace(REQ, "(:requirements :typing :negative-preconditions :action-costs)"),
        MA2[1].replace("(:domain ma2)", "(:domain ma2b)").replace("(problem ma2p)", "(problem ma2bp)"))
assert MA2B[0] != MA2[0] and ":numeric-fluents" not in MA2B[0]

# the agent is NOT the first parameter (an item comes first); give names two agents, the first of them executes
MA4 = (f"""(define (domain ma4)
{REQ}
(:types agent item - object)
(:predicates (free ?i - item) (has ?a - agent ?i - item) (busy ?a - agent))
(:action fetch :parameters (?i - item ?a - agent)
  :precondition (and (free ?i)) :effect (and (not (free ?i)) (has ?a ?i)))
(:action mark :parameters (?a - agent) :precondition (and (not (busy ?a))) :effect (and (busy ?a)))
(:action give :parameters (?i - item ?a - agent ?b - agent)
  :precondition (and (has ?a ?i)) :effect (and (not (has ?a ?i)) (has ?b ?i))))
""", """(define (problem ma4p) (:domain ma4)
(:objects {agents} - agent i1 i2 - item)
(:init (free i1) (free i2))
(:goal (and (busy a1))))
""")

# every object is a constant of the domain: the problem declares no objects (its object table is empty, not missing)
MA5 = (f"""(define (domain ma5)
{REQ}
(:types agent item - object)
(:constants a1 a2 a3 - agent i1 - item)
(:predicates (own ?a - agent ?i - item) (clean ?i - item) (idle ?a - agent))
(:action wash :parameters (?a - agent)
  :precondition (and (idle ?a))
  :effect (and (not (idle ?a)) (forall (?i - item) (when (own ?a ?i) (clean ?i)))))
(:action grab :parameters (?a - agent)
  :precondition (and (not (own ?a i1))) :effect (and (own ?a i1) (when (clean i1) (idle ?a))))
(:action rest :parameters (?a - agent)
  :precondition (and (forall (?i - item) (and (clean ?i)))) :effect (and (idle ?a))))
""", """(define (problem ma5p) (:domain ma5)
(:objects )
(:init (idle a1) (own a1 i1) (idle a2))
(:goal (and (clean i1))))
""")

ALL = {"ma1": MA1, "ma2": MA2, "ma3": MA3, "ma2b": MA2B, "ma4": MA4, "ma5": MA5}


def agent_of(call_args, agents):
    """the executing agent of a call: its first argument that is an agent"""
    return next((x for x in call_args if x in agents), None)


def texts(name, n_agents):
    d, p = ALL[name]
    agents = [f"a{i + 1}" for i in range(n_agents)]
    fuel = " ".join(f"(= (fuel {a}) {i % 3})" for i, a in enumerate(agents, start=1))
    return d, p.format(agents=" ".join(agents), fuel=fuel), agents


def ref(name, n_agents):
    d, p, agents = texts(name, n_agents)
    return RefDomain.from_tree(sexp.read(d)), RefProblem.from_tree(sexp.read(p)), agents


def agent_calls(dom, objs, agents):
    """agent -> list of (action, args) executed by that agent (the first argument that is an agent)"""
    out = {a: [] for a in agents}
    for act in dom.actions.values():
        for args in dom.calls(act, objs):
            ag = agent_of(args, out)
            if ag is not None:
                out[ag].append((act.name, args))
    return out
