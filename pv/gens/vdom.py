"""The V-domain corpus (DESIGN §3): every PDDL program derivable from a bounded grammar over a fixed tiny
vocabulary, simplest first, plus the state universe of a (program, call).

Programs are produced as *text*; the reference reads that text with pv.sexp, the library with its
own parser — the text is the single source of truth.
"""
import re
from fractions import Fraction
from itertools import combinations, product
from typing import Dict, List

from ..refsem import RefDomain, RefState, mentioned

OBJECTS = {"o1": "t1", "o2": "t2", "o3": "t3"}
OBJECTS_THOROUGH = {"o1": "t1", "o2": "t2", "o3": "t3", "o4": "t1"}
OBJECTS_UNTYPED = {"o1": "object", "o2": "object"}
# object names that are prefixes / extensions of one another, with digits, '-' and '_'
OBJECTS_NAMES = {"o1": "t1", "o11": "t2", "o1-b": "t1", "o_1": "t3"}

REQ = ("(:requirements :typing :negative-preconditions :equality :disjunctive-preconditions "
       ":universal-preconditions :numeric-fluents :conditional-effects)")
TYPES = "(:types t1 t3 - object t2 - t1)"
PREDS_T = "(:predicates (r) (p ?a - t1) (q ?a - t1 ?b - t1) (m ?a - object))"
FUNCS_T = "(:functions (f) (g ?a - t1) (h ?a - t1 ?b - t1))"
PREDS_U = "(:predicates (r) (p ?a) (q ?a ?b) (m ?a))"
FUNCS_U = "(:functions (f) (g ?a) (h ?a ?b))"

PROFILES = {
    "xy": "?x - t1 ?y - t1",
    "xy-grouped": "?x ?y - t1",
    "x2y": "?x - t2 ?y - t1",
    "x": "?x - t1",
    "none": "",
    "xy-untyped": "?x ?y",
}
PROFILE_VARS = {"xy": {"?x", "?y"}, "xy-grouped": {"?x", "?y"}, "x2y": {"?x", "?y"}, "x": {"?x"},
                "none": set(), "xy-untyped": {"?x", "?y"}}


def header(kind: str) -> str:
    if kind == "typed":
        return f"{REQ}\n{TYPES}\n{PREDS_T}\n{FUNCS_T}"
    if kind == "const":
        return f"{REQ}\n{TYPES}\n(:constants c - t1)\n{PREDS_T}\n{FUNCS_T}"
    if kind == "untyped":
        return f"{REQ.replace(':typing ', '')}\n{PREDS_U}\n{FUNCS_U}"
    if kind == "untyped-const":
        return f"{REQ.replace(':typing ', '')}\n(:constants c)\n{PREDS_U}\n{FUNCS_U}"
    raise ValueError(kind)


def domain_text(hkind: str, profile: str, pre: str, eff: str, name="v") -> str:
    return (f"(define (domain {name})\n{header(hkind)}\n(:action a\n :parameters ({PROFILES[profile]})\n"
            f" :precondition {pre}\n :effect {eff}))\n")


_VAR = re.compile(r"\?[a-z]+")
_CONST = re.compile(r"[ (]c[ )]")


def free_vars(text: str, bound=("?z",)) -> set:
    return set(_VAR.findall(text)) - set(bound)


def uses_const(text: str) -> bool:
    return bool(_CONST.search(text))


def program(profile: str, pre: str, eff: str, tags=(), objects=None, quant_types=()) -> dict:
    """Chooses the header: untyped for the untyped profile, constant header iff `c` is mentioned."""
    body = pre + " " + eff
    if profile == "xy-untyped":
        hk = "untyped-const" if uses_const(body) else "untyped"
        objs = dict(OBJECTS_UNTYPED)
    else:
        hk = "const" if uses_const(body) else "typed"
        objs = dict(objects or OBJECTS)
    return {"domain": domain_text(hk, profile, pre, eff), "objects": objs, "profile": profile,
            "pre": pre, "eff": eff, "tags": list(tags), "header": hk}


def compatible(profile: str, *texts) -> bool:
    need = set()
    for t in texts:
        need |= free_vars(t)
    if not need <= PROFILE_VARS[profile]:
        return False
    if profile == "xy-untyped" and any("?z -" in t for t in texts):
        return False  # quantifier types need :types
    return True


# ------------------------------------------------------------------------------------------------
# preconditions

LIT_QUICK = ["(r)", "(p ?x)", "(not (p ?y))", "(q ?x ?y)", "(not (q ?y ?x))", "(= ?x ?y)",
             "(not (= ?x ?y))", "(>= (g ?x) 1)", "(<= (f) (g ?y))", "(p c)"]
LIT_MORE = ["(< (f) (g ?y))", "(not (r))", "(not (p ?x))", "(p ?y)", "(q ?y ?x)", "(not (q ?x ?y))", "(q ?x c)",
            "(not (p c))", "(= ?x c)", "(= (f) 2)", "(> (+ (g ?x) (f)) (* 2 (g ?y)))",
            "(<= (h ?x ?y) 0.5)", "(not (q ?x c))"]
LZ = {
    "t1": ["(p ?z)", "(not (p ?z))", "(q ?x ?z)", "(m ?z)", "(>= (g ?z) 1)", "(not (= ?z ?x))"],
    "t2": ["(p ?z)", "(not (p ?z))", "(q ?x ?z)", "(m ?z)", "(>= (g ?z) 1)", "(not (= ?z ?x))"],
    "object": ["(m ?z)", "(not (m ?z))", "(not (= ?z ?x))"],
}


def quantifier_ok(text: str, T: str) -> bool:
    """DESIGN C02 'not demanded': a program with a quantifier over T never has a constant ⊑ T in scope."""
    return not (uses_const(text) and T in ("t1", "object"))


def pre_formulas(tier: str):
    """yields (text, tags)"""
    L = LIT_QUICK if tier == "quick" else LIT_QUICK + LIT_MORE
    L10 = LIT_QUICK
    yield "()", ["empty"]
    yield "(and)", ["empty"]
    for a in L:
        yield f"(and {a})", ["and1"]
    for a, b in product(L, L):
        if a != b:
            yield f"(and {a} {b})", ["and2"]
    for a, b, c in combinations(L, 3):
        yield f"(and {a} {b} {c})", ["and3"]
    for a in L:
        for b, c in combinations(L10, 2):
            if a not in (b, c):
                yield f"(and {a} (or {b} {c}))", ["or"]
    # the same literal inside a nested formula and directly in the enclosing one, in both source orders;
    # nested operand written first
    for b, c in combinations(L10, 2):
        yield f"(and (or {b} {c}) {b})", ["or", "dup"]
        yield f"(and {c} (or {b} {c}))", ["or", "dup"]
        yield f"(and (or (and {b} {c}) {b}))", ["or", "dup", "or-and"]
    for a in L10[:6]:
        for b, c in combinations(L10[2:7], 2):
            if a not in (b, c):
                yield f"(and (or {b} {c}) {a})", ["or", "nested-first"]
    # constant written before a variable; two-parameter fluents; a constant inside a function term; two literals
    # of one predicate with the same sign (they coincide for a call that repeats an object)
    for t in ("(and (q c ?x))", "(and (not (q c ?y)) (p ?x))", "(and (or (q c ?x) (q ?x c)))",
              "(and (<= (h ?x ?y) 0.5))", "(and (p ?x) (>= (h ?y ?x) 1))", "(and (or (r) (< (h ?x ?y) (g ?y))))",
              "(and (>= (h ?x c) 1))", "(and (< (h c ?y) (h ?y c)) (p c))",
              "(and (>= (h c c) 1))", "(and (p ?x) (< (f) (+ (h c c) (g c))))",   # one constant in both places of a function term
              # a quantifier over t1 whose body reads a root-typed predicate (m ?a - object) next to a t1-typed one
              "(and (forall (?z - t1) (or (p ?z) (not (m ?z)))) (not (p c)))", "(and (forall (?z - t1) (or (not (m ?z)) (q c ?z))))",
              # sibling compound sub-formulas that differ only in a numeral beyond the second decimal
              "(and (or (r) (> (g ?x) 0.996)) (or (r) (> (g ?x) 1.004)))",
              "(and (or (p ?x) (and (r) (<= (f) 1.996))) (or (p ?x) (and (r) (<= (f) 2.004))))",
              "(and (forall (?z - t1) (or (p ?z) (>= (g ?z) 0.996))) (forall (?z - t1) (or (p ?z) (>= (g ?z) 1.004))))",
              "(and (p ?x) (p ?y))", "(and (not (p ?x)) (not (p ?y)) (r))", "(and (or (p ?x) (p ?y)) (p ?x))",
              "(and (m c))", "(and (not (m c)) (p ?x))", "(and (or (m c) (q ?x c)))",   # constant of a proper subtype of the position's type
              "(and (or (r) (>= (g ?x) 1)))", "(and (p ?x) (or (not (r)) (< (f) (g ?y))))",   # comparisons inside a disjunction
              "(and (or (not (= ?x ?y)) (r)))", "(and (p ?x) (or (= ?x ?y) (q ?x ?y)))",      # (in)equalities inside a disjunction
              "(and (not (= ?x ?y)) (or (q ?x ?y) (r)))", "(and (or (p ?x) (not (= ?x ?y))) (= ?x ?y))",
              # a numeral as the FIRST operand of a comparison / of an arithmetic node
              "(and (<= 1 (g ?x)))", "(and (> 2 (f)) (p ?x))", "(and (or (r) (< 0.5 (+ (g ?x) (f)))))", "(and (>= 1 (g ?y)))",
              "(and (< 1 (* 2 (g ?x))))", "(and (>= (- 2 (g ?x)) (f)))", "(and (= ?x ?y) (<= 0 (- 1 (g ?y))))",
              # one atom with both signs in one group; groups made of (in)equalities only; an (in)equality with the constant second
              "(and (or (p ?x) (not (p ?x))) (r))", "(and (q ?x ?y) (or (not (q ?x ?y)) (r)))",
              "(and (p ?x) (or (= ?x ?y) (= ?y c)))", "(and (or (r) (and (not (= ?x ?y)) (not (= ?x c)))))",
              "(and (not (= ?x c)) (p ?y))", "(and (or (= ?y c) (p ?x)))",
              # (in)equalities that mention the quantified variable
              "(and (forall (?z - t1) (or (= ?z ?x) (p ?z))))", "(and (forall (?z - t1) (or (not (= ?z c)) (m ?z))))",
              # a quantified variable that shadows a parameter, next to a quantifier whose body mentions that parameter
              "(and (forall (?y - t1) (or (p ?y) (m ?y))) (forall (?z - t1) (or (q ?y ?z) (m ?z))))",
              "(and (forall (?z - t1) (or (q ?z ?x) (m ?z))) (forall (?x - t2) (and (p ?x))))"):
        yield t, ["extra"]
    for T, lz in LZ.items():
        for a in L10[:5]:
            for z in lz[:4]:
                t = f"(and (or (forall (?z - {T}) (and {z})) {a}))"
                if quantifier_ok(t, T):
                    yield t, ["forall", "forall-in-or", f"forall-{T}"]
        for z in lz[:3]:
            yield f"(and (p ?x) (or (r) (and (forall (?z - {T}) (and {z})) (not (p ?y)))))", ["forall", "forall-in-or", f"forall-{T}"]
    for T in ("t1", "t2"):
        # the quantified variable has the name of an action parameter (legal shadowing)
        yield f"(and (p ?x) (forall (?y - {T}) (and (not (q ?x ?y)))))", ["forall", "shadow", f"forall-{T}"]
        yield f"(and (forall (?x - {T}) (or (p ?x) (q ?x ?y))))", ["forall", "shadow", f"forall-{T}"]
    for T, lz in LZ.items():
        for T2 in ("t1", "t2"):
            for z1, z2 in product(lz[:3], LZ[T2][:3]):
                if z1 != z2:
                    yield (f"(and (forall (?z - {T}) (and {z1})) (forall (?z - {T2}) (and {z2})))",
                           ["forall", "forall-simple", "two-forall", f"forall-{T}"])
    for T, lz in LZ.items():
        for a in L10:
            for z in lz:
                t = f"(and {a} (forall (?z - {T}) (and {z})))"
                if quantifier_ok(t, T):
                    yield t, ["forall", f"forall-{T}"]
        for z1, z2 in combinations(lz, 2):
            yield f"(and (forall (?z - {T}) (or {z1} {z2})))", ["forall", "forall-or", f"forall-{T}"]
            yield f"(and (forall (?z - {T}) (and {z1} {z2})))", ["forall", "forall-simple", f"forall-{T}"]
    for T in ("t1", "t2"):
        for a in L10[:4]:
            for z in LZ[T][:3]:
                for b, c in combinations(L10[1:5], 2):
                    yield f"(and {a} (forall (?z - {T}) (and {z})) (or {b} {c}))", ["forall", "or", f"forall-{T}"]
    if tier != "quick":
        pairs = list(combinations(L10, 2))
        for (a, b), (c, d) in combinations(pairs, 2):
            yield f"(and (or {a} {b}) (or {c} {d}))", ["or", "or-or"]
        for a in L10:
            for b in L10[:5]:
                for c, d in combinations(L10[:6], 2):
                    if len({a, b, c, d}) == 4:
                        yield f"(and {a} (or {b} (and {c} {d})))", ["or", "or-and"]


def pre_programs(tier: str):
    """C02 corpus: every formula with the main profile; the other profiles with the <= 2-literal formulas
    (and one-level or / forall, which are cheap) — pairwise, not full, crossing (DESIGN C01)."""
    eff = "(and (r))"
    for text, tags in pre_formulas(tier):
        if compatible("xy", text):
            yield program("xy", text, eff, tags)
    for text in NAMES_PRE:
        yield program("xy", text, eff, ["names"], objects=OBJECTS_NAMES)
    for prof in ("xy-grouped", "x2y", "xy-untyped", "x", "none"):
        n_or = 0
        for text, tags in pre_formulas("quick"):
            keep = tags[0] in ("empty", "and1", "and2", "extra") or "forall-simple" in tags
            if tags[0] == "or" and n_or < 40:
                keep = True
            if keep and compatible(prof, text):
                if tags[0] == "or":
                    n_or += 1
                yield program(prof, text, eff, tags + [f"profile-{prof}"])


# ------------------------------------------------------------------------------------------------
# effects

EFF_QUICK = ["(p ?x)", "(not (p ?x))", "(q ?x ?y)", "(not (q ?y ?x))", "(not (r))", "(increase (f) 1)",
             "(assign (f) (g ?y))", "(decrease (g ?x) 0.5)"]
EFF_MORE = ["(not (q ?x ?y))", "(q ?y ?x)", "(r)", "(p c)", "(assign (g ?x) (+ (g ?x) (f)))",
            "(increase (h ?x ?y) 1)", "(not (p c))", "(assign (g ?y) (* (f) 2))"]
GAMMA = ["(r)", "(not (p ?y))", "(and (p ?x) (q ?x ?y))", "(>= (g ?x) 1)", "(= ?x ?y)", "(not (= ?x ?y))"]
GAMMA_MORE = ["(p c)", "(and (not (r)) (< (f) (g ?y)))", "(q ?y ?x)"]
GZ = {
    "t1": (["(p ?z)", "(not (q ?x ?z))", "(>= (g ?z) 1)", "(not (= ?z ?x))", "(m ?z)"],
           ["(not (p ?z))", "(q ?x ?z)", "(increase (g ?z) 1)", "(not (m ?z))", "(p ?z)"]),
    "t2": (["(p ?z)", "(not (q ?x ?z))", "(>= (g ?z) 1)", "(m ?z)"],
           ["(not (p ?z))", "(q ?x ?z)", "(increase (g ?z) 1)", "(not (m ?z))"]),
    "object": (["(m ?z)", "(not (m ?z))", "(not (= ?z ?x))"], ["(not (m ?z))", "(m ?z)"]),
}
PRE_FOR_EFF = ["(and)", "(and (p ?x))", "(and (not (= ?x ?y)))", "(and (>= (g ?x) 1))", "(and (not (q ?x ?y)) (r))",
               "()"]


def eff_formulas(tier: str):
    E = EFF_QUICK if tier == "quick" else EFF_QUICK + EFF_MORE
    G = GAMMA if tier == "quick" else GAMMA + GAMMA_MORE
    E8 = EFF_QUICK
    for e in E:
        yield f"(and {e})", ["e1"]
    for a, b in combinations(E, 2):
        yield f"(and {a} {b})", ["e2"]
    for a, b, c in combinations(E8, 3):
        yield f"(and {a} {b} {c})", ["e3"]
    for g in G:
        for b in E:
            yield f"(and (when {g} {b}))", ["when", "when-bare"]
            yield f"(and (when {g} (and {b})))", ["when"]
    for a in E8:
        for g in G:
            for b in E8:
                if a != b:
                    yield f"(and {a} (when {g} {b}))", ["when", "e+when"]
    for g in G:
        for a, b in combinations(E8, 2):
            yield f"(and (when {g} (and {a} {b})))", ["when", "when2"]
    for a in E8[:4]:
        for g1, g2 in combinations(G[:4], 2):
            for b, c in combinations(E8[2:7], 2):
                yield f"(and {a} (when {g1} {b}) (when {g2} {c}))", ["when", "when+when"]
    for T, (gz, ez) in GZ.items():
        for g in gz:
            for e in ez:
                yield f"(and (forall (?z - {T}) (when {g} {e})))", ["forall", f"forall-{T}"]
                yield f"(and (forall (?z - {T}) (when (and {g}) (and {e}))))", ["forall", f"forall-{T}"]
        for a in E8[:5]:
            for g in gz[:3]:
                for e in ez[:3]:
                    yield f"(and {a} (forall (?z - {T}) (when {g} {e})))", ["forall", "e+forall", f"forall-{T}"]
        for g0 in G[:3]:
            for b in E8[:3]:
                for g in gz[:2]:
                    for e in ez[:2]:
                        yield (f"(and (when {g0} {b}) (forall (?z - {T}) (when {g} {e})))",
                               ["forall", "when", "when+forall", f"forall-{T}"])


MUTUAL = [
    "(and (increase (f) (g ?x)) (decrease (g ?x) (f)))",
    "(and (assign (f) (g ?y)) (assign (g ?y) (f)))",
    "(and (increase (f) 1) (assign (g ?x) (f)))",
    "(and (assign (g ?x) (* (f) 2)) (decrease (f) (g ?x)))",
    "(and (when (r) (assign (f) (g ?x))) (increase (g ?x) (f)))",
    "(and (increase (f) (g ?y)) (when (not (r)) (assign (g ?y) (+ (f) 1))))",
    "(and (assign (h ?x ?y) (f)) (increase (f) (h ?x ?y)))",
    "(and (forall (?z - t1) (when (p ?z) (increase (g ?z) (f)))) (decrease (f) 1))",
]


EXTRA_EFF = [  # constant before a variable; constants inside function terms; same-sign twins
    "(and (q c ?x))", "(and (not (q c ?y)) (q ?y c))", "(and (when (q c ?x) (not (q c ?x))))",
    "(and (increase (h c ?y) 1))", "(and (assign (h ?x c) (h c ?x)))", "(and (p ?x) (p ?y))",
    "(and (increase (h c c) 1) (decrease (f) 1))", "(and (assign (f) (h c c)) (when (p ?x) (increase (g ?x) (h c c))))",
    "(and (not (p ?x)) (not (p ?y)))", "(and (when (p ?y) (p ?x)) (when (p ?x) (p ?y)))",
    "(and (when (p ?x) (not (q ?x ?y))) (when (q ?x ?y) (not (p ?x))))",
    "(and (forall (?y - t1) (when (q ?x ?y) (not (q ?x ?y)))))",          # quantified variable shadows a parameter
    "(and (p ?y) (forall (?x - t2) (when (not (p ?x)) (q ?x ?y))))",
    "(and (forall (?z - t1) (when (not (q ?x ?z)) (p ?z))))",              # condition true for objects no fact mentions
    "(and (forall (?z - object) (when (not (m ?z)) (m ?z))))",
    # two when-effects with one condition that differ only in their numeric part / only in their literals
    "(and (when (r) (increase (f) 1)) (when (r) (decrease (g ?x) 1)))",
    "(and (when (p ?x) (and (q ?x ?y) (increase (f) 1))) (when (p ?x) (and (q ?x ?y) (assign (g ?y) 2))))",
    "(and (when (r) (p ?x)) (when (r) (p ?y)))",
    "(and (m c) (when (m c) (not (p c))))",                                  # constant of a proper subtype of the position's type
    "(and (when (or (r) (>= (g ?x) 1)) (not (r))))",                         # comparison inside a disjunctive condition
    # two quantified effects over unrelated types / with differently named variables
    "(and (forall (?z - t2) (when (p ?z) (not (p ?z)))) (forall (?w - t3) (when (m ?w) (not (m ?w)))))",
    "(and (forall (?w - t3) (when (not (m ?w)) (m ?w))) (forall (?z - t1) (when (q ?x ?z) (p ?z))))",
    # a numeral as the first operand
    "(and (increase (f) (* 2 (g ?x))))", "(and (assign (g ?x) (- 10 (g ?y))))", "(and (when (<= 1 (g ?x)) (r)))",
    "(and (when (> 2 (+ (f) (g ?y))) (decrease (f) (/ 1 (g ?x)))))",
    # one effect group reads what another group writes (all right-hand sides are read in the state before the action)
    "(and (assign (g ?x) (g ?y)) (when (r) (assign (g ?y) (g ?x))))",
    "(and (increase (f) 1) (when (p ?x) (assign (g ?x) (f))) (when (not (p ?x)) (decrease (g ?y) (f))))",
    # a numeric effect inside a quantified effect reads a fluent that the same action changes elsewhere
    "(and (decrease (f) 1) (forall (?z - t1) (when (p ?z) (increase (g ?z) (f)))))",
    "(and (forall (?z - t1) (when (q ?x ?z) (assign (g ?z) (g ?x)))) (increase (g ?x) 2))",
    # quantified effects range over the domain's constants as well
    "(and (m c) (forall (?z - t1) (when (not (p ?z)) (p ?z))))", "(and (not (p c)) (forall (?z - object) (when (m ?z) (not (m ?z)))))",
    # an unconditional numeric effect next to a quantified effect; two when-effects that make the same change
    "(and (increase (f) 1) (forall (?z - t1) (when (p ?z) (not (p ?z)))))",
    "(and (assign (g ?x) 2) (forall (?z - t2) (when (not (p ?z)) (p ?z))) (r))",
    "(and (when (r) (p ?x)) (when (q ?x ?y) (p ?x)))", "(and (when (p ?y) (increase (f) 1)) (when (not (r)) (increase (f) 1)))",
    # delete and add of one atom in one group (delete, then add)
    "(and (not (q ?x ?y)) (q ?x ?y))", "(and (p ?x) (not (p ?x)) (r))",
]
NAMES_PRE = ["(and (not (p ?x)) (p ?y))", "(and (p ?x) (not (p ?y)))", "(and (not (q ?x ?y)) (q ?y ?x))", "(and (not (m ?x)))",
             "(and (or (not (p ?x)) (q ?x ?y)))", "(and (forall (?z - t1) (or (not (p ?z)) (q ?x ?z))))"]
NAMES_EFF = ["(and (not (p ?x)) (p ?y))", "(and (not (q ?x ?y)) (q ?y ?x))", "(and (when (not (p ?y)) (not (p ?x))))",
             "(and (forall (?z - t1) (when (not (p ?z)) (not (q ?x ?z)))))", "(and (decrease (g ?x) 1) (increase (g ?y) 1))"]
FINE = [  # right-hand sides whose exact value needs more than 4 decimals / is not a dyadic number
    "(and (increase (f) (* (g ?x) 0.0001)))",
    "(and (assign (g ?x) (+ (g ?x) (* (f) 0.00001))))",
    "(and (decrease (f) (/ (g ?x) 3)))",
    "(and (when (r) (assign (f) (* (* (g ?x) 0.003) 0.01))))",
    "(and (assign (f) (/ (+ (g ?x) 9.97991) 3)))",
]


LAYOUTS = [  # (constants, extra predicates, extra functions, parameters, precondition, effect): declaration layouts
    # an object-typed constant group before / between typed groups; untyped constants last
    ("k0 - object c - t1", "", "", "?x - t1", "(and (forall (?z - t1) (or (p ?z) (m ?z))))", "(and (p c) (m k0))"),
    ("c - t1 k0 - object c3 - t3", "", "", "?x - t1", "(and (not (m k0)) (forall (?z - t3) (and (m ?z))))", "(and (m k0) (not (m c3)))"),
    ("c - t1 k0", "", "", "?x - t1", "(and (forall (?z - t1) (or (p ?z) (m ?z))))", "(and (m k0) (q ?x c))"),
    ("c2 - t2 c - t1", "", "", "?x - t1", "(and (forall (?z - t2) (and (p ?z))))", "(and (q c c2) (not (p c2)))"),
    # parameters whose types interleave
    (None, "", "", "?x - t1 ?w - t3 ?y - t1", "(and (p ?x) (not (p ?y)) (m ?w))", "(and (q ?x ?y) (not (m ?w)) (increase (h ?x ?y) 1))"),
    (None, "", "", "?w - t3 ?x ?y - t1", "(and (not (= ?x ?y)) (m ?w))", "(and (q ?y ?x) (not (m ?w)))"),
    (None, "", "", "?x - t1 ?w - object ?y - t2", "(and (q ?x ?y) (not (m ?w)))", "(and (m ?w) (not (q ?x ?y)) (assign (g ?y) (g ?x)))"),
    (None, "", "", "?y - t2 ?x - t1", "(and (p ?y))", "(and (q ?y ?x) (decrease (g ?x) (g ?y)))"),
    # parameters named like the declarations' own parameters (?a ?b), used in the declared and in the other order
    (None, "", "", "?a - t1 ?b - t1", "(and (q ?b ?a) (>= (h ?b ?a) 1))",
     "(and (not (q ?b ?a)) (q ?a ?b) (increase (h ?b ?a) 1) (assign (f) (h ?a ?b)))"),
    (None, "", "", "?b - t1 ?a - t1", "(and (or (q ?a ?b) (< (h ?a ?b) (h ?b ?a))))", "(and (q ?b ?a) (decrease (h ?a ?b) (h ?b ?a)))"),
    # predicate / function declarations whose types interleave
    (None, "(s3 ?a - t1 ?b - t3 ?c - t1)", "(w3 ?a - t1 ?b - t3 ?c - t1)", "?x - t1 ?w - t3 ?y - t1",
     "(and (or (s3 ?x ?w ?y) (>= (w3 ?x ?w ?y) 1)))", "(and (s3 ?y ?w ?x) (increase (w3 ?y ?w ?x) 2))"),
    (None, "(s3 ?a ?b - t1 ?c - object)", "(w3 ?a - object ?b ?c - t1)", "?x - t1 ?y - t1 ?w - t3",
     "(and (not (s3 ?x ?y ?w)))", "(and (s3 ?y ?x ?w) (assign (w3 ?w ?x ?y) (f)))"),
]


def layout_programs():
    for consts, preds, funcs, params, pre, eff in LAYOUTS:
        head = [REQ, TYPES]
        if consts:
            head.append(f"(:constants {consts})")
        head.append(PREDS_T[:-1] + (" " + preds if preds else "") + ")")
        head.append(FUNCS_T[:-1] + (" " + funcs if funcs else "") + ")")
        text = ("(define (domain v)\n" + "\n".join(head) + f"\n(:action a\n :parameters ({params})\n"
                f" :precondition {pre}\n :effect {eff}))\n")
        yield {"domain": text, "objects": dict(OBJECTS), "profile": "layout " + (consts or "") + " | " + params,
               "pre": pre, "eff": eff, "tags": ["layout"], "header": "layout"}


DEEP_TYPES = "(:types t1 t3 - object t2 - t1 t4 - t2 t5 - t4)"   # five levels: object > t1 > t2 > t4 > t5
DEEP_OBJECTS = {"o1": "t1", "o2": "t2", "o4": "t4", "o5": "t5", "o3": "t3"}
DEEP = [
    ("?x - t1 ?y - t5", "(and (p ?y) (forall (?z - t4) (or (p ?z) (m ?z))))",
     "(and (q ?x ?y) (forall (?z - t2) (when (p ?z) (not (p ?z)))))"),
    ("?x - t4 ?y - t2", "(and (not (= ?x ?y)) (or (q ?x ?y) (>= (g ?x) 1)))", "(and (increase (g ?y) 1) (m ?x))"),
]


def deep_programs():
    for params, pre, eff in DEEP:
        text = (f"(define (domain v)\n{REQ}\n{DEEP_TYPES}\n{PREDS_T}\n{FUNCS_T}\n(:action a\n :parameters ({params})\n"
                f" :precondition {pre}\n :effect {eff}))\n")
        yield {"domain": text, "objects": dict(DEEP_OBJECTS), "profile": "deep " + params, "pre": pre, "eff": eff,
               "tags": ["layout", "deep-types"], "header": "layout"}


TWO_TABLES = [  # a quantified precondition and a quantified effect: used with two object tables over ONE Domain object
    ("xy", "(and (forall (?z - t1) (or (p ?z) (m ?z))))", "(and (forall (?z - t1) (when (not (q ?x ?z)) (q ?x ?z))))"),
    ("xy", "(and (p ?x) (forall (?z - object) (or (m ?z) (not (m ?z)))))", "(and (forall (?z - object) (when (not (m ?z)) (m ?z))))"),
    # no parameters: the second problem declares NO object at all, the quantifiers still range over the constant
    ("none", "(and (forall (?z - t1) (or (m ?z) (not (p ?z)))))", "(and (m c) (forall (?z - t1) (when (not (p ?z)) (p ?z))))"),
]


def eff_programs(tier: str):
    yield from layout_programs()
    yield from deep_programs()
    for prof, pre, eff in TWO_TABLES:
        yield program(prof, pre, eff, ["two-tables", "forall"])
    # effects that read what another effect of the same action writes (zero-arity and parameterised fluents)
    for text in MUTUAL:
        yield program("xy", "(and)", text, ["mutual"])
    for text in FINE:
        yield program("xy", "(and)", text, ["fine", "inexact"])
    for text in EXTRA_EFF:
        for prof in ("xy", "x2y"):
            yield program(prof, "(and)", text, ["extra"])
    for text in NAMES_EFF:
        yield program("xy", "(and)", text, ["names"], objects=OBJECTS_NAMES)
    for text, tags in eff_formulas(tier):
        if compatible("xy", text):
            yield program("xy", "(and)", text, tags)
    for pre in PRE_FOR_EFF[1:]:
        for text, tags in eff_formulas("quick"):
            if tags[0] in ("e1", "e2") or "when-bare" in tags:
                yield program("xy", pre, text, tags + ["pre"])
    for prof in ("xy-grouped", "x2y", "xy-untyped", "x", "none"):
        for text, tags in eff_formulas("quick"):
            if tags[0] in ("e1", "e2") or "when-bare" in tags or (tags[0] == "forall" and "(and" not in text[5:]):
                if compatible(prof, text) and (prof != "xy-untyped" or "forall" not in tags):
                    yield program(prof, "(and)", text, tags + [f"profile-{prof}"])


# ------------------------------------------------------------------------------------------------
# state universe of one (program, call)

GRID = [Fraction(0), Fraction(1), Fraction(2), Fraction(1, 2), Fraction(-1)]
BIG = [Fraction(20000), Fraction(20001)]  # one unit apart at a magnitude where a relative tolerance would matter
FRAME_ATOMS = [("m", "o3"), ("q", "o2", "o2"), ("p", "o2"), ("m", "o1")]
FRAME_FLUENT = (("h", "o1", "o2"), Fraction(7))


def universe(dom: RefDomain, action, args, objs: Dict[str, str], max_atoms=7, max_states=512):
    """All states over the atoms / fluents the instantiated action mentions (DESIGN §3), every
    mentioned fluent defined; plus fixed frame facts that must be left alone.  Returns (states, caps)."""
    atoms, fluents = mentioned(dom, action, args, objs)
    caps = []
    if len(atoms) > max_atoms:
        caps.append(f"atoms {len(atoms)}>{max_atoms}")
        atoms = atoms[:max_atoms]
    n = len(fluents)
    gsize = {0: 1, 1: 5, 2: 4, 3: 3}.get(n, 2)
    while gsize > 2 and (2 ** len(atoms)) * (gsize ** n) > max_states:
        gsize -= 1
    if n and (2 ** len(atoms)) * (gsize ** n) > max_states:
        caps.append("states>max")
    grid = GRID[:gsize]
    if 1 <= n <= 2 and (2 ** len(atoms)) * ((gsize + 2) ** n) <= max_states:
        grid = grid + BIG
    frame_atoms = [a for a in FRAME_ATOMS if a not in atoms and all(x in objs for x in a[1:])
                   and a[0] in dom.predicates and len(a) - 1 == len(dom.predicates[a[0]])][:2]
    frame_fl = {}
    k, v = FRAME_FLUENT
    if k not in fluents and k[0] in dom.functions and all(x in objs for x in k[1:]):
        frame_fl[k] = v
    states = []
    for mask in range(2 ** len(atoms)):
        sel = [a for i, a in enumerate(atoms) if mask >> i & 1]
        for vals in product(grid, repeat=n):
            fl = dict(frame_fl)
            fl.update(zip(fluents, vals))
            states.append(RefState(sel + frame_atoms, fl))
            if len(states) >= max_states * 2:
                caps.append("truncated")
                return states, caps
    return states, caps
