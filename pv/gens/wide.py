"""A domain and problems with long, hyphenated names and wide sections (DESIGN §12, round 9): every fact group, goal
list and serialized state is several hundred characters long, and the length of the first object's name sweeps the
column at which any fixed-width layout of the text would have to break."""

REQ = "(:requirements :typing :negative-preconditions :numeric-fluents)"
DOMAIN = f"""(define (domain wide-roads)
{REQ}
(:types place - object)
(:predicates (link-to ?a - place ?b - place) (is-open ?a - place))
(:functions (road-length ?a - place ?b - place) (total-cost))
(:action open-up :parameters (?a - place)
  :precondition (and (not (is-open ?a))) :effect (and (is-open ?a) (increase (total-cost) 1)))
(:action cut-off :parameters (?a - place ?b - place)
  :precondition (and (link-to ?a ?b)) :effect (and (not (link-to ?a ?b)) (decrease (road-length ?a ?b) 1))))
"""
SHIFTS = list(range(1, 13))


def objects(k):
    return ["a" * k + "-hub", "north-station", "south-station", "city-loc-b"]


def problem(k):
    objs = objects(k)
    pairs = [(a, b) for a in objs for b in objs]
    links = " ".join(f"(link-to {a} {b})" for a, b in pairs)
    lens = " ".join(f"(= (road-length {a} {b}) {i}.5)" for i, (a, b) in enumerate(pairs))
    goal = " ".join(f"(link-to {a} {b})" for a, b in pairs[::2]) + " (>= (total-cost) 1) (<= (road-length north-station south-station) 40)"
    return (f"(define (problem wide-roads-{k}) (:domain wide-roads)\n(:objects {' '.join(objs)} - place)\n"
            f"(:init {links} (is-open {objs[1]}) (is-open {objs[3]}) {lens} (= (total-cost) 0))\n(:goal (and {goal})))\n")


def plans(k):
    o = objects(k)
    return [[["open-up", o[0]]], [["open-up", o[0]], ["cut-off", o[0], o[1]]], [["cut-off", o[2], o[3]], ["open-up", o[2]]]]
