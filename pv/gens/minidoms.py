"""A fixed family of mini-domains with their problems (DESIGN §4 C04): STRIPS, numeric (incl. a fluent with
repeated arguments), conditional + universal + constants, zero-arity.  Used by the history explorers
(C04, C07, C10, C14)."""
from fractions import Fraction
from itertools import product

from .. import sexp
from ..refsem import RefDomain, RefProblem

REQ = "(:requirements :typing :negative-preconditions :equality :numeric-fluents :conditional-effects :universal-preconditions)"

STRIPS = (f"""(define (domain s1)
{REQ}
(:types t1 - object t2 - t1)
(:predicates (p ?a - t1) (q ?a - t1 ?b - t1) (r) (z3 ?a - t2 ?b - t2 ?c - t1))
(:action mv :parameters (?x - t1 ?y - t1)
  :precondition (and (p ?x) (not (p ?y)) (not (= ?x ?y)))
  :effect (and (not (p ?x)) (p ?y) (q ?x ?y)))
(:action tg :parameters () :precondition (and) :effect (and (r)))
(:action un :parameters (?x - t1) :precondition (and (r) (p ?x)) :effect (and (not (r))))
(:action set2 :parameters (?x - t2) :precondition (and) :effect (and (p ?x)))
(:action clr :parameters (?x - t1) :precondition (and (p ?x)) :effect (and (not (p ?x)))))
""", """(define (problem s1p) (:domain s1)
(:objects a - t1 b - t2)
(:init (p a) (z3 b b a))
(:goal (and (p b))))
""")

NUMERIC = (f"""(define (domain n1)
{REQ}
(:types t1 - object)
(:predicates (on ?a - t1))
(:functions (f) (g ?a - t1) (h ?a - t1 ?b - t1) (t3 ?a - t1 ?b - t1 ?c - t1))
(:action inc :parameters (?x - t1)
  :precondition (and (< (g ?x) 2))
  :effect (and (increase (g ?x) 1) (decrease (f) 0.5) (on ?x)))
(:action xfer :parameters (?x - t1 ?y - t1)
  :precondition (and (>= (g ?x) 1))
  :effect (and (decrease (g ?x) 1) (increase (h ?x ?y) 1) (assign (f) (* (g ?y) -1))))
(:action tick :parameters () :precondition (and) :effect (and (increase (f) 0.00001)))
(:action mix :parameters (?x - t1)
  :precondition (and (on ?x)) :effect (and (increase (f) (g ?x)) (decrease (g ?x) (f))))
(:action swap :parameters (?x - t1 ?y - t1)
  :precondition (and (not (= ?x ?y)))
  :effect (and (assign (g ?x) (g ?y)) (when (on ?x) (assign (g ?y) (g ?x))))))
""", """(define (problem n1p) (:domain n1)
(:objects a b - t1)
(:init (= (f) -2) (= (g a) 0) (= (g b) 1.5) (= (h a a) 0) (= (h a b) 0.00002) (= (h b a) 0.25) (= (h b b) 0) (= (t3 a b a) 2) (= (t3 b a a) 3))
(:goal (and (> (g a) 1))))
""")

COND = (f"""(define (domain c1)
{REQ}
(:types t1 t3 - object t2 - t1)
(:constants k - t1)
(:predicates (p ?a - t1) (q ?a - t1 ?b - t1) (r) (m ?a - object))
(:functions (cnt) (aux))
(:action sweep :parameters (?x - t1)
  :precondition (and (p ?x) (forall (?z - t2) (or (m ?z) (not (p ?z)))))
  :effect (and (not (p ?x))
               (forall (?z - t2) (when (q ?x ?z) (and (not (q ?x ?z)) (p ?z))))
               (when (p k) (and (r) (increase (cnt) 1)))))
(:action link :parameters (?x - t1 ?y - t1)
  :precondition (and (or (not (= ?x ?y)) (m ?x)) (or (p ?x) (r) (= ?y k)))
  :effect (and (q ?x ?y) (when (not (r)) (m ?y))))
(:action mark :parameters (?o - object) :precondition (and (not (m ?o))) :effect (and (m ?o) (p k)))
(:action bump :parameters () :precondition (and) :effect (and (increase (aux) (+ (cnt) 1))))
(:action chk :parameters (?z - t1)
  :precondition (and (forall (?z - t2) (or (m ?z) (not (p ?z))))) :effect (and (m ?z)))
(:action gate :parameters ()
  :precondition (and (or (forall (?z - t3) (and (m ?z))) (r)))
  :effect (and (p k))))
""", """(define (problem c1p) (:domain c1)
(:objects a - t1 b b2 - t2 w - t3)
(:init (p a) (q a b) (q a b2) (= (cnt) 0))
(:goal (and (r))))
""")

ALL = {"strips": STRIPS, "numeric": NUMERIC, "cond": COND}


def ref(name):
    d, p = ALL[name]
    return RefDomain.from_tree(sexp.read(d)), RefProblem.from_tree(sexp.read(p))


def all_calls(dom: RefDomain, objs):
    out = []
    for a in dom.actions.values():
        for args in dom.calls(a, objs):
            out.append((a.name, args))
    return out


def plans(calls, length):
    for n in range(length + 1):
        for p in product(calls, repeat=n):
            yield list(p)
