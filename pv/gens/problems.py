"""Problem-text generator for C05 / C09 (DESIGN §4 C05): valid problems over a fixed domain and every
single-point corruption of a family of base problems."""
from fractions import Fraction
from itertools import combinations, product

REQ = "(:requirements :typing :negative-preconditions :equality :numeric-fluents)"
DOMAIN_T = f"""(define (domain w)
{REQ}
(:types t1 t3 - object t2 - t1)
(:constants c - t1)
(:predicates (r) (p ?a - t1) (q ?a - t1 ?b - t1) (m ?a - object) (s ?a - t2) (u ?a - t1 ?b - t1 ?c - t3) (f) (g ?a - t1))
(:functions (f) (g ?a - t1) (h ?a - t1 ?b - t1) (k ?a - t2) (w ?a - t1 ?b - t1 ?c - t3) (tr ?a - t1 ?b - t1 ?c - t1))
(:action a :parameters (?x - t1) :precondition (and (p ?x)) :effect (and (not (p ?x)))))
"""
# the same names with a FLAT hierarchy: t2 is not below t1 here (a stale cross-domain subtype answer would show)
DOMAIN_F = DOMAIN_T.replace("(:types t1 t3 - object t2 - t1)", "(:types t1 t2 t3 - object)").replace("(:constants c - t1)", "(:constants c - t1)")
DOMAIN_U = """(define (domain w)
(:requirements :negative-preconditions :equality :numeric-fluents)
(:constants c)
(:predicates (r) (p ?a) (q ?a ?b) (m ?a) (s ?a))
(:functions (f) (g ?a) (h ?a ?b) (k ?a))
(:action a :parameters (?x) :precondition (and (p ?x)) :effect (and (not (p ?x)))))
"""
OBJ_T = {"o1": "t1", "o2": "t2", "o3": "t3"}
OBJ_U = {"o1": "object", "o2": "object"}
# (f) and (g ?a) are declared both as predicates and as functions: a fact and a fluent may share their name and arguments
SIG_T = {"r": [], "p": ["t1"], "q": ["t1", "t1"], "m": ["object"], "s": ["t2"], "u": ["t1", "t1", "t3"], "f": [], "g": ["t1"]}
FSIG_T = {"f": [], "g": ["t1"], "h": ["t1", "t1"], "k": ["t2"], "w": ["t1", "t1", "t3"], "tr": ["t1", "t1", "t1"]}
PARENT = {"t1": "object", "t2": "t1", "t3": "object", "object": None}
NUMERALS = ["0", "7", "-3", "2.5", "-0.25", "1e2", "2.5e-1", "12345.678", "2.5e-7", "0.0000123456",
            "007", "-0", "-0.0", "1E2", "10", "100.50"]


def sub(a, b):
    while a is not None:
        if a == b:
            return True
        a = PARENT[a]
    return False


def ground(sig, objs, typed=True):
    out = []
    for name, types in sig.items():
        ranges = [[o for o, t in objs.items() if (sub(t, ty) if typed else True)] for ty in types]
        for combo in product(*ranges):
            out.append((name,) + combo)
    return out


def object_decls(objs, typed):
    """(tag, text) variants of the same object table."""
    if not typed:
        names = list(objs)
        yield "untyped", " ".join(names)
        yield "untyped-explicit", " ".join(f"{n} - object" for n in names)
        yield "untyped-reversed", " ".join(reversed(names))
        return
    items = list(objs.items())
    yield "one-by-one", " ".join(f"{n} - {t}" for n, t in items)
    yield "reversed", " ".join(f"{n} - {t}" for n, t in reversed(items))
    # grouped: add a second t1 object so that a group exists
    yield "newline-layout", "\n".join(f"\t{n}\t-\t{t}" for n, t in items)


def render(objs_text, init_items, goal_items, domain="w", name="prob"):
    return (f"(define (problem {name}) (:domain {domain})\n(:objects {objs_text})\n"
            f"(:init {' '.join(init_items)})\n(:goal (and {' '.join(goal_items)})))\n")


def atom_text(a):
    return "(" + " ".join(a) + ")"


def fluent_text(k, numeral):
    return f"(= ({' '.join(k)}) {numeral})"


NUM_GOALS = ["(> (g o1) 1)", "(<= (f) 2.5)", "(= (h o1 o1) 0)", "(>= (+ (g o1) (f)) (* 2 (g o2)))"]
NUM_GOALS_NUMERAL_FIRST = ["(< 3 (g o1))", "(>= 2.5 (f))", "(<= 0 (h o1 o1))", "(> 1 (+ (g o1) (f)))",
                           "(<= (- 0 (g o1)) 5)", "(> (* 1 (f)) (- 0 (g o2)))"]


def valid_problems(tier):
    """yields dict(kind='valid', typed, objects{name:type}, objs_text, init atoms, fluents{key:numeral}, goals, numgoals)"""
    for typed in (True, False):
        objs = dict(OBJ_T if typed else OBJ_U)
        allobjs = dict(objs)
        allobjs["c"] = "t1" if typed else "object"
        atoms = [a for a in ground(SIG_T, allobjs, typed) if a[0] != "u"]
        fluents = [f for f in ground(FSIG_T, allobjs, typed) if f[0] not in ("w", "tr")]
        decls = list(object_decls(objs, typed))
        kmax = 3 if tier == "quick" else 4
        fl_menu = [{}, {("f",): "7"}, {("g", "o1"): "2.5", ("h", "o1", "o1"): "-3"},
                   {("h", "o2", "o1"): "1e2", ("h", "o1", "o2"): "2.5e-1"}, {("g", "c"): "-0.25", ("f",): "0"},
                   {("k", "o2"): "12345.678"}]
        if not typed:
            atoms = [a for a in atoms if a[0] in ("r", "p", "q")]
            kmax = 2
        subsets = [s for k in range(kmax + 1) for s in combinations(atoms, k)]
        step = 1
        for i, sel in enumerate(subsets):
            fl = fl_menu[i % len(fl_menu)] if (typed or True) else {}
            tag, otext = decls[i % len(decls)]
            yield {"kind": "valid", "typed": typed, "objects": objs, "decl": tag, "objs_text": otext,
                   "atoms": [list(a) for a in sel], "fluents": {" ".join(k): v for k, v in fl.items()},
                   "goals": [], "numgoals": []}
        # every fluent x every numeral
        for k in fluents:
            for n in NUMERALS:
                tag, otext = decls[0]
                yield {"kind": "valid", "typed": typed, "objects": objs, "decl": tag, "objs_text": otext,
                       "atoms": [["r"]], "fluents": {" ".join(k): n}, "goals": [], "numgoals": []}
        # goals
        gsub = [s for k in range(3) for s in combinations(atoms, k)]
        for i, sel in enumerate(gsub):
            ng = [] if i % 5 == 4 else [NUM_GOALS[i % 4]]
            if i % 5 == 0:
                ng = []
            tag, otext = decls[i % len(decls)]
            yield {"kind": "valid", "typed": typed, "objects": objs, "decl": tag, "objs_text": otext,
                   "atoms": [["p", "o1"]], "fluents": {"f": "1", "g o1": "2", "g o2": "0", "h o1 o1": "0"},
                   "goals": [list(a) for a in sel], "numgoals": ng}
    # three-place fluents whose arguments repeat an object (all equal; adjacent; not adjacent)
    for key in ("tr o1 o1 o1", "tr o1 o1 o2", "tr o2 o1 o1", "tr o1 o2 o1", "tr o1 o2 c"):
        yield {"kind": "valid", "typed": True, "objects": dict(OBJ_T), "decl": "one-by-one",
               "objs_text": " ".join(f"{n} - {t}" for n, t in OBJ_T.items()), "atoms": [["p", "o1"]],
               "fluents": {key: "5", "f": "1"}, "goals": [], "numgoals": [], "tag3": key}
    # goals made of numeric conditions only
    for ng in ([NUM_GOALS[0]], [NUM_GOALS[1], NUM_GOALS[3]], list(NUM_GOALS), [NUM_GOALS_NUMERAL_FIRST[0]],
               NUM_GOALS_NUMERAL_FIRST[1:3], list(NUM_GOALS_NUMERAL_FIRST), [NUM_GOALS[0], NUM_GOALS_NUMERAL_FIRST[3]]):
        yield {"kind": "valid", "typed": True, "objects": dict(OBJ_T), "decl": "one-by-one",
               "objs_text": " ".join(f"{n} - {t}" for n, t in OBJ_T.items()), "atoms": [["p", "o1"]],
               "fluents": {"f": "1", "g o1": "2", "g o2": "0", "h o1 o1": "0"}, "goals": [], "numgoals": ng}
    # object-table variants (typed): grouped, trailing untyped, subtype objects
    for tag, otext, objs in (
        ("grouped", "o1 o4 - t1 o2 - t2 o3 - t3", {"o1": "t1", "o4": "t1", "o2": "t2", "o3": "t3"}),
        ("trailing-untyped", "o1 - t1 o2 - t2 u1 u2", {"o1": "t1", "o2": "t2", "u1": "object", "u2": "object"}),
        ("all-untyped", "u1 u2", {"u1": "object", "u2": "object"}),
        ("grouped-mixed", "o1 - t1 o2 o5 - t2 o3 - t3", {"o1": "t1", "o2": "t2", "o5": "t2", "o3": "t3"}),
        ("object-first", "u1 - object o1 - t1 u2 - object o2 - t2", {"u1": "object", "o1": "t1", "u2": "object", "o2": "t2"}),
        ("object-grouped-first", "u1 u2 - object o1 o4 - t1", {"u1": "object", "u2": "object", "o1": "t1", "o4": "t1"}),
        ("alternating", "o1 - t1 o3 - t3 o4 - t1 o2 - t2 o6 - t3 o5 - t2",
         {"o1": "t1", "o3": "t3", "o4": "t1", "o2": "t2", "o6": "t3", "o5": "t2"}),
        ("alternating-with-object", "u1 - object o1 - t1 u2 o4 - t1 u3",
         {"u1": "object", "o1": "t1", "u2": "t1", "o4": "t1", "u3": "object"}),
        ("names", "o1 - t1 o11 - t2 o1-b - t1 o_1 - t3 o-1 - t1", {"o1": "t1", "o11": "t2", "o1-b": "t1", "o_1": "t3", "o-1": "t1"}),
        ("empty", "", {}),
    ):
        for atoms_sel in ([], [["m", n] for n in objs], [["r"]]):
            yield {"kind": "valid", "typed": True, "objects": objs, "decl": tag, "objs_text": otext,
                   "atoms": atoms_sel, "fluents": {}, "goals": [list(a) for a in atoms_sel[:1]], "numgoals": []}


BASES = [
    {"atoms": [["u", "o1", "o1", "o3"], ["u", "o2", "o1", "o3"], ["p", "o1"]],
     "fluents": {"w o1 o1 o3": "2", "w o1 o2 o3": "1"},
     "goals": [["u", "o2", "o2", "o3"]], "numgoals": ["(> (w o1 o1 o3) 1)"]},
    {"atoms": [["p", "o1"], ["q", "o1", "o2"], ["m", "o3"], ["s", "o2"], ["r"]],
     "fluents": {"f": "1", "g o1": "2", "h o1 o2": "3", "k o2": "4"},
     "goals": [["p", "o2"], ["q", "o2", "o1"]], "numgoals": ["(> (g o1) 1)"]},
    {"atoms": [["q", "c", "o1"], ["p", "c"]], "fluents": {"h o1 o1": "0", "g c": "5"},
     "goals": [["m", "o1"]], "numgoals": ["(<= (h o1 o2) 2.5)", "(>= (k o2) 0)"]},
]


def corruptions(tier):
    """yields dict(kind='corrupt', what, text) : every single-point corruption of the base problems."""
    objs = dict(OBJ_T, u0="object")   # u0: an object of the root type, legal only where 'object' is required
    otext = " ".join(f"{n} - {t}" for n, t in objs.items())
    allobjs = dict(objs, c="t1")

    def text(b, **over):
        d = {"atoms": b["atoms"], "fluents": b["fluents"], "goals": b["goals"], "numgoals": b["numgoals"]}
        d.update(over)
        init = [atom_text(a) for a in d["atoms"]] + [f"(= ({k}) {v})" for k, v in d["fluents"].items()]
        goals = [atom_text(a) for a in d["goals"]] + list(d["numgoals"])
        return render(over.get("objs_text", otext), init, goals, domain=over.get("domain", "w"))

    def bad_args(name, args, sig):
        """single-position replacements that must be rejected"""
        for i, ty in enumerate(sig):
            for o, t in list(allobjs.items()) + [("zz", None)]:
                if t is None or not sub(t, ty):
                    yield args[:i] + [o] + args[i + 1:], f"pos{i}:{o}"
        yield args[:-1], "arity-1"
        yield args + ["o1"], "arity+1"

    # an object declared by other problems over the same Domain object, but not by this one
    small = "o1 - t1 o3 - t3"
    for init, goal, what in (("(p o2)", "", "atoms:p:object-of-earlier-problem"), ("(q o1 o2)", "", "atoms:q:object-of-earlier-problem"),
                             ("(= (g o2) 1)", "", "fluent:g:object-of-earlier-problem"), ("(p o1)", "(s o2)", "goals:s:object-of-earlier-problem")):
        yield {"kind": "corrupt", "what": what, "base": -1, "text": render(small, [init], [goal] if goal else [])}
    # a problem that names another domain, also when the other name is a piece, a prefix, a suffix or an extension of
    # the real one (the domain here is called w-num_2)
    for other in ("w", "num", "w-num", "w-num_", "num_2", "-", "w-num_22", "xw-num_2", "w_num-2"):
        yield {"kind": "corrupt", "what": "wrong-domain:" + other, "base": 0, "dom": "long-name",
               "text": text(BASES[1], domain=other)}
    for bi, b in enumerate(BASES):
        yield {"kind": "corrupt", "what": "wrong-domain", "text": text(b, domain="other"), "base": bi}
        yield {"kind": "corrupt", "what": "undeclared-object-type", "base": bi,
               "text": text(b, objs_text=otext + " o9 - t9")}
        for section in ("atoms", "goals"):
            for j, a in enumerate(b[section]):
                name, args = a[0], a[1:]
                if args:
                    for new, what in bad_args(name, args, SIG_T[name]):
                        lst = [list(x) for x in b[section]]
                        lst[j] = [name] + new
                        yield {"kind": "corrupt", "what": f"{section}:{name}:{what}", "base": bi,
                               "text": text(b, **{section: lst})}
                else:
                    lst = [list(x) for x in b[section]]
                    lst[j] = [name, "o1"]
                    yield {"kind": "corrupt", "what": f"{section}:{name}:arity+1", "base": bi,
                           "text": text(b, **{section: lst})}
                lst = [list(x) for x in b[section]]
                lst[j] = ["zzz"] + args
                yield {"kind": "corrupt", "what": f"{section}:undeclared-predicate", "base": bi,
                       "text": text(b, **{section: lst})}
        for k in list(b["fluents"]):
            parts = k.split(" ")
            name, args = parts[0], parts[1:]
            variants = list(bad_args(name, args, FSIG_T[name])) if args else [(["o1"], "arity+1")]
            for new, what in variants:
                fl = {kk: vv for kk, vv in b["fluents"].items() if kk != k}
                fl[" ".join([name] + new)] = b["fluents"][k]
                yield {"kind": "corrupt", "what": f"fluent:{name}:{what}", "base": bi, "text": text(b, fluents=fl)}
            fl = {kk: vv for kk, vv in b["fluents"].items() if kk != k}
            fl[" ".join(["zzz"] + args)] = "1"
            yield {"kind": "corrupt", "what": "fluent:undeclared-function", "base": bi, "text": text(b, fluents=fl)}
        for j, g in enumerate(b["numgoals"]):
            from .. import sexp
            t = sexp.read(g)
            fl = t[1]
            name, args = fl[0], fl[1:]
            variants = list(bad_args(name, args, FSIG_T[name])) if args else [(["o1"], "arity+1")]
            for new, what in variants:
                t2 = [t[0], [name] + new, t[2]]
                ng = list(b["numgoals"])
                ng[j] = sexp.dumps(t2)
                yield {"kind": "corrupt", "what": f"numgoal:{name}:{what}", "base": bi, "text": text(b, numgoals=ng)}
            ng = list(b["numgoals"])
            ng[j] = sexp.dumps([t[0], ["zzz"] + args, t[2]])
            yield {"kind": "corrupt", "what": "numgoal:undeclared-function", "base": bi, "text": text(b, numgoals=ng)}
