"""Bounded-exhaustive generator of numeric expression trees (pv.sexp form, prefix operand order).

A tree is a numeral string, a fluent slot ["$", i] (renamed to a concrete fluent by `instantiate`),
or [op, left, right] with op in + - * /.  Enumeration is simplest-first: by node count, then in a
fixed order of shapes, operators and leaf labels.  Fluent slots are numbered in first-occurrence
order (restricted-growth strings), so trees that differ only by a renaming of fluents are
enumerated once; the concrete names are rotated by the caller.
"""
from fractions import Fraction
from typing import Iterator, List, Sequence

OPS = ("+", "-", "*", "/")
COMMUTATIVE = ("+", "*")


def is_slot(t) -> bool:
    return isinstance(t, list) and len(t) == 2 and t[0] == "$"


def is_const(t) -> bool:
    return isinstance(t, str)


def shapes(n: int) -> Iterator:
    """Binary operator trees with exactly n nodes (n odd); leaves are None."""
    if n == 1:
        yield None
        return
    for left in range(1, n - 1, 2):
        right = n - 1 - left
        for op in OPS:
            for l in shapes(left):
                for r in shapes(right):
                    yield [op, l, r]


def _label(shape, consts: Sequence[str], used: int, max_fluents: int):
    """yields (tree, used') for every labelling of the leaves, left to right"""
    if shape is None:
        for k in range(min(used + 1, max_fluents)):
            yield ["$", k], max(used, k + 1)
        for c in consts:
            yield c, used
        return
    op, l, r = shape
    for lt, u1 in _label(l, consts, used, max_fluents):
        for rt, u2 in _label(r, consts, u1, max_fluents):
            yield [op, lt, rt], u2


def syntactic_degree(t) -> int:
    if is_const(t):
        return 0
    if is_slot(t):
        return 1
    op, l, r = t
    if op in "+-":
        return max(syntactic_degree(l), syntactic_degree(r))
    if op == "*":
        return syntactic_degree(l) + syntactic_degree(r)
    return syntactic_degree(l)


def n_nodes(t) -> int:
    if is_const(t) or is_slot(t):
        return 1
    return 1 + n_nodes(t[1]) + n_nodes(t[2])


def n_slots(t) -> int:
    if is_const(t):
        return 0
    if is_slot(t):
        return t[1] + 1
    return max(n_slots(t[1]), n_slots(t[2]))


def has_fluent(t) -> bool:
    if is_const(t):
        return False
    if is_slot(t):
        return True
    return has_fluent(t[1]) or has_fluent(t[2])


def divisor_ok(d) -> bool:
    """a non-zero constant, a fluent, or a product of two fluents"""
    if is_const(d):
        return Fraction(d) != 0
    if is_slot(d):
        return True
    return d[0] == "*" and is_slot(d[1]) and is_slot(d[2])


def admissible(t, max_degree=3, const_folding=False) -> bool:
    if is_const(t) or is_slot(t):
        return True
    op, l, r = t
    if op == "/" and not divisor_ok(r):
        return False
    if not const_folding and not has_fluent(t):
        return False
    if syntactic_degree(t) > max_degree:
        return False
    return admissible(l, max_degree, const_folding) and admissible(r, max_degree, const_folding)


def trees(n: int, consts: Sequence[str], max_fluents=4, max_degree=3, const_folding=False,
          ordered_commutative_leaves=False) -> Iterator:
    """All admissible trees with exactly n nodes.  ordered_commutative_leaves: for a commutative
    operator whose operands are a constant and a non-constant, keep only the order (non-constant,
    constant) -- halves the space where the operand order is covered by smaller trees."""
    for sh in shapes(n):
        for t, used in _label(sh, consts, 0, max_fluents):
            if n > 1 and not has_fluent(t) and not const_folding:
                continue
            if not admissible(t, max_degree, const_folding):
                continue
            if ordered_commutative_leaves and _has_const_first(t):
                continue
            yield t


def _has_const_first(t) -> bool:
    if is_const(t) or is_slot(t):
        return False
    op, l, r = t
    if op in COMMUTATIVE and is_const(l) and not is_const(r):
        return True
    return _has_const_first(l) or _has_const_first(r)


def instantiate(t, names: Sequence[List[str]]):
    """Replace slot i by the fluent names[i] (a list of atoms)."""
    if is_const(t):
        return t
    if is_slot(t):
        return list(names[t[1]])
    return [t[0], instantiate(t[1], names), instantiate(t[2], names)]


def to_pddl(t) -> str:
    """Prefix text, the form the library's reader takes."""
    if isinstance(t, str):
        return t
    if t[0] in OPS:
        return f"({t[0]} {to_pddl(t[1])} {to_pddl(t[2])})"
    return "(" + " ".join(t) + ")"


def to_math(t) -> str:
    """Fully parenthesised infix text with fluents in the library's own '(name args)' spelling
    ('(x )' for a fluent without arguments) -- the input format of the string entry points."""
    if isinstance(t, str):
        return t
    if t[0] in OPS:
        return f"({to_math(t[1])} {t[0]} {to_math(t[2])})"
    return f"({t[0]} {' '.join(t[1:])})"
