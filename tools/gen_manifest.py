#!/usr/bin/env python3
"""Regenerates MANIFEST.json from the table below (kept in one place so it is always valid)."""
import json, os, subprocess
HERE = os.path.dirname(os.path.dirname(os.path.abspath(__file__)))
PY = "/venv/bin/python"
CHECKS = {}   # id -> dict(text, note, technique, design_ref)
exec(open(os.path.join(HERE, "tools", "manifest_table.py")).read())
props = [json.loads(l) for l in open(os.path.join(HERE, "properties.jsonl"))]
checks, na = [], []
for p in props:
    pid = p["id"]
    if pid in CHECKS:
        c = CHECKS[pid]
        checks.append({
            "property_id": pid,
            "quick_cmd": f"{PY} -m pv.cli {pid} --tier quick",
            "thorough_cmd": f"{PY} -m pv.cli {pid} --tier thorough",
            "evidence_file": f"/verif/evidence/{pid}.json",
            "replay_cmd_template": f"{PY} -m pv.cli {pid} --replay {{path}}",
            "engine": c.get("engine", "pv.runner"),
            "level_claimed": {"category": "model_checking", "text": c["text"], "design_ref": c.get("design_ref", f"DESIGN.md §4 {pid}")},
            "level_note": c["note"],
            "technique": c["technique"],
        })
    else:
        na.append({"property_id": pid, "reason": NOT_YET.get(pid, "check not built yet in this session; see DESIGN.md §9 build order")})
try:
    hooks_commits = []
except Exception:
    hooks_commits = []
m = {
    "version": 1,
    "setup_cmd": f"cd /verif && {PY} -m compileall -q pv && {PY} -m pv.selftest",
    "hooks": {
        "guard": "PDDL_PLUS_PARSER_VERIF",
        "enable": "no source hooks exist: every seam (set iteration order, thread scheduling, glob order, environment configuration) is installed from the harness side; checks import the working tree under /repo directly",
        "baseline_off_cmd": "cd /repo && /venv/bin/python -m pytest -ra -q -p no:cacheprovider --timeout=900 --continue-on-collection-errors",
        "source_commits": [],
        "add_only": True,
    },
    "engines": ENGINES,
    "checks": checks,
    "not_applicable": na,
    "notes": NOTES,
}
json.dump(m, open(os.path.join(HERE, "MANIFEST.json"), "w"), indent=1)
print(f"MANIFEST.json: {len(checks)} checks, {len(na)} not claimed")
