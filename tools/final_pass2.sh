#!/bin/bash
# Second (last) regression pass: every seeded change against the check of its own property as finally committed
# (demo / tests / cross-firing were established by tools/final_pass.sh and the baselines; kept in mutants/final_pass1).
N=${1:-3}
cd /verif
ids=$(ls seeded)
run_stream() {
  k=$1; i=0
  for id in $ids; do
    if [ $((i % N)) -eq $k ]; then
      prop=${id%%-*}
      tools/eval_mutant.py "$id" seeded/$id/patch.diff --checks "$prop" --jobs 1 --workers 5
    fi
    i=$((i+1))
  done
}
for k in $(seq 0 $((N-1))); do run_stream $k > /tmp/final_pass2_$k.log 2>&1 & done
wait
