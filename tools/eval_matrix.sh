#!/bin/bash
# full matrix: every seeded change and every revert patch against every registered quick check
for id in $(ls seeded); do
  tools/eval_mutant.py "$id" seeded/$id/patch.diff --jobs 4 --workers 6 --demo seeded/$id/demo.py --tests
done
for f in mutants/reverts/revert_*.diff; do n=$(basename $f .diff); tools/eval_mutant.py $n $f --jobs 4 --workers 6; done
