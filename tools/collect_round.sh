#!/bin/bash
# usage: tools/collect_round.sh <variant>...   copies /tmp/mut/Cxx_out/<variant>/{patch.diff,demo.py,meta.json} to seeded/Cxx-<variant>/
for v in "$@"; do
  for i in $(seq -w 1 20); do
    src=/tmp/mut/C${i}_out/$v
    [ -s $src/patch.diff ] && [ -s $src/demo.py ] && [ -s $src/meta.json ] || { echo "incomplete: C$i-$v"; continue; }
    dst=/verif/seeded/C$i-$v
    [ -d $dst ] && continue
    mkdir -p $dst && cp $src/patch.diff $src/demo.py $src/meta.json $dst/ && echo "collected C$i-$v"
  done
done
