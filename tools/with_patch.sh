#!/bin/bash
# usage: tools/with_patch.sh <patch.diff> <command...>
# applies the patch to /repo's working tree, runs the command, and always restores the tree.
P=$(realpath "$1"); shift
if ! git -C /repo diff --quiet; then echo "refusing: /repo working tree is dirty" >&2; exit 3; fi
git -C /repo apply "$P" || { echo "patch does not apply" >&2; exit 3; }
trap 'git -C /repo checkout -q -- . ; git -C /repo clean -fdq -- pddl_plus_parser' EXIT
"$@"
