#!/usr/bin/env python3
"""Evaluate one seeded change: scratch worktree of /repo HEAD + patch, run the quick checks against it
(PV_REPO / PV_OUT keep /repo and /verif/evidence untouched), summarise which checks report a violation.
usage: tools/eval_mutant.py <name> <patch.diff> [--checks C01,C02] [--jobs N] [--demo demo.py]"""
import argparse, json, os, re, shutil, subprocess, sys, time
ap = argparse.ArgumentParser()
ap.add_argument("name"); ap.add_argument("patch"); ap.add_argument("--checks"); ap.add_argument("--jobs", type=int, default=4)
ap.add_argument("--demo"); ap.add_argument("--workers", type=int, default=8); ap.add_argument("--tests", action="store_true")
a = ap.parse_args()
VERIF = "/verif"
man = json.load(open(f"{VERIF}/MANIFEST.json"))
ids = [c["property_id"] for c in man["checks"]]
if a.checks:
    ids = list(dict.fromkeys(c for c in a.checks.split(",") if c))
tree = f"/tmp/eval/{a.name}"
out = f"/tmp/eval/{a.name}_out"
shutil.rmtree(out, ignore_errors=True); os.makedirs(out, exist_ok=True)
subprocess.run(["git", "-C", "/repo", "worktree", "remove", "--force", tree], capture_output=True)
os.makedirs("/tmp/eval", exist_ok=True)
subprocess.run(["git", "-C", "/repo", "worktree", "add", "-q", "--detach", tree, "HEAD"], check=True)
def _head(d):
    return subprocess.run(["git", "-C", d, "rev-parse", "--short", "HEAD"], capture_output=True, text=True).stdout.strip()
res = {"name": a.name, "patch": a.patch, "checks": {}, "repo_head": _head("/repo"), "verif_head": _head(VERIF),
       "verif_dirty": bool(subprocess.run(["git", "-C", VERIF, "status", "--porcelain", "pv"], capture_output=True, text=True).stdout.strip())}
try:
    r = subprocess.run(["git", "-C", tree, "apply", os.path.abspath(a.patch)], capture_output=True, text=True)
    if r.returncode != 0:
        res["error"] = "patch does not apply: " + r.stderr[-400:]
        print(json.dumps(res)); sys.exit(3)
    env = dict(os.environ, PV_REPO=tree, PV_OUT=out, PYTHONPATH=f"{tree}:{VERIF}", PV_WORKERS=str(a.workers))
    if a.demo:
        d = subprocess.run(["/venv/bin/python", os.path.abspath(a.demo)], capture_output=True, text=True,
                           env=dict(os.environ, PYTHONPATH=tree), cwd=out, timeout=600)
        res["demo_with_change"] = {"rc": d.returncode, "tail": (d.stdout + d.stderr)[-300:]}
        d = subprocess.run(["/venv/bin/python", os.path.abspath(a.demo)], capture_output=True, text=True,
                           env=dict(os.environ, PYTHONPATH="/repo"), cwd=out, timeout=600)
        res["demo_clean"] = {"rc": d.returncode, "tail": (d.stdout + d.stderr)[-300:]}
    if a.tests:
        t = subprocess.run(["/verif/tools/mut/run_tests.sh", tree], capture_output=True, text=True, timeout=1800)
        res["tests"] = {"rc": t.returncode, "tail": t.stdout[-600:]}
    procs = {}
    pending = list(ids)
    t0 = time.time()
    while pending or procs:
        while pending and len(procs) < a.jobs:
            cid = pending.pop(0)
            procs[cid] = (subprocess.Popen(["/venv/bin/python", "-m", "pv.cli", cid, "--tier", "quick"], cwd=VERIF, env=env,
                                           stdout=subprocess.PIPE, stderr=subprocess.STDOUT, text=True), time.time())
        for cid, (p, ts) in list(procs.items()):
            if p.poll() is not None:
                txt = p.stdout.read()
                viol = [l for l in txt.splitlines() if l.startswith("VIOLATION")]
                clauses = sorted(set(re.findall(r"clause=([\w-]+)", txt)))
                res["checks"][cid] = {"rc": p.returncode, "violations": len(viol), "clauses": clauses,
                                      "wall": round(time.time() - ts, 1),
                                      "first": next((l[:400] for l in txt.splitlines() if l.strip().startswith("clause=")), None),
                                      "tail": txt[-300:] if p.returncode not in (0, 1) else None}
                del procs[cid]
        time.sleep(0.3)
    res["wall"] = round(time.time() - t0, 1)
    # keep up to 2 replay files per firing check as replayable witnesses of this change
    import glob
    for cid, v in res["checks"].items():
        if v["rc"] == 1:
            files = sorted(glob.glob(f"{out}/replays/{cid}/*.json"))[:2]
            if files:
                dst = f"{VERIF}/mutants/replays/{a.name}"
                os.makedirs(dst, exist_ok=True)
                for f in files:
                    shutil.copy(f, f"{dst}/{cid}_{os.path.basename(f)}")
finally:
    subprocess.run(["git", "-C", "/repo", "worktree", "remove", "--force", tree], capture_output=True)
    shutil.rmtree(out, ignore_errors=True)
os.makedirs(f"{VERIF}/mutants/results", exist_ok=True)
json.dump(res, open(f"{VERIF}/mutants/results/{a.name}.json", "w"), indent=1)
fired = [c for c, v in res["checks"].items() if v["rc"] == 1]
errs = [c for c, v in res["checks"].items() if v["rc"] not in (0, 1)]
print(f"{a.name}: fired={fired} harness_errors={errs} demo={res.get('demo_with_change', {}).get('rc')}/{res.get('demo_clean', {}).get('rc')} tests={res.get('tests', {}).get('rc')} wall={res.get('wall')}")
