#!/bin/bash
# waits for the first matrix run, then evaluates every seeded change whose result file does not cover all registered checks
while pgrep -f "eval_matrix[.]sh" >/dev/null; do sleep 60; done
N=$(python3 -c "import json;print(len(json.load(open('/verif/MANIFEST.json'))['checks']))")
for id in $(ls seeded); do
  n=$(python3 -c "import json,sys;print(len(json.load(open('/verif/mutants/results/$id.json'))['checks']))" 2>/dev/null || echo 0)
  if [ "$n" -lt "$N" ]; then tools/eval_mutant.py "$id" seeded/$id/patch.diff --jobs 4 --workers 6 --demo seeded/$id/demo.py --tests; fi
done
# reverted fixes: the property that found the defect plus every check that takes < 15 s (full matrix only for seeded changes)
FAST=C04,C05,C06,C09,C10,C14,C15,C16,C17,C20
for f in mutants/reverts/revert_*.diff; do
  n=$(basename $f .diff); c=${n#revert_}
  [ -f mutants/results/$n.json ] && continue
  props=$(python3 -c "
import json
ps=set()
for l in open('/verif/known_findings.jsonl'):
    j=json.loads(l)
    if j.get('commit','').startswith('$c'): ps.add(j['property'])
print(','.join(sorted(ps)))")
  tools/eval_mutant.py $n $f --jobs 4 --workers 6 --checks "${props:+$props,}$FAST"
done
