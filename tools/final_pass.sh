#!/bin/bash
# Final regression pass of the detection campaign: every seeded change against the check of its own property plus the
# fast checks (cross-firing), in N parallel streams; then every reverted fix against the property that found it.
# usage: tools/final_pass.sh [streams]
N=${1:-3}
FAST=C04,C05,C06,C09,C10,C14,C16,C17,C20
cd /verif
ids=$(ls seeded)
run_stream() {
  k=$1; i=0
  for id in $ids; do
    if [ $((i % N)) -eq $k ]; then
      prop=${id%%-*}
      tools/eval_mutant.py "$id" seeded/$id/patch.diff --checks "$prop,$FAST" --jobs 2 --workers 4 --demo seeded/$id/demo.py --tests
    fi
    i=$((i+1))
  done
}
for k in $(seq 0 $((N-1))); do run_stream $k > /tmp/final_pass_$k.log 2>&1 & done
wait
for f in mutants/reverts/revert_*.diff; do
  n=$(basename $f .diff); c=${n#revert_}
  props=$(python3 -c "
import json
ps=set()
for l in open('/verif/known_findings.jsonl'):
    j=json.loads(l)
    if j.get('commit','').startswith('$c'): ps.add(j['property'])
print(','.join(sorted(ps)))")
  [ -z "$props" ] && { echo "$n: no property mapped"; continue; }
  tools/eval_mutant.py $n $f --jobs 2 --workers 6 --checks "$props"
done > /tmp/final_pass_reverts.log 2>&1
