#!/bin/bash
# run every registered quick (or thorough) check on /repo as it is; one summary line each. usage: tools/run_all.sh [quick|thorough]
T=${1:-quick}; rc=0
for p in $(python3 -c "import json;print(' '.join(c['property_id'] for c in json.load(open('/verif/MANIFEST.json'))['checks']))"); do
  out=$(cd /verif && /venv/bin/python -m pv.cli $p --tier $T 2>&1); r=$?
  echo "rc=$r $(echo "$out" | tail -1 | cut -c1-170)"; [ $r -ne 0 ] && { rc=1; echo "$out" | grep -E "VIOLATION|clause=" | head -4 | cut -c1-300; }
done
exit $rc
