#!/bin/bash
# usage: /tmp/mut/run_tests.sh <worktree>   -> prints which tests pass; exit 0 iff nothing that passes on the clean tree fails
TREE=$1
PY=/venv/bin/python
OUT=$(mktemp -d /tmp/mut_t.XXXXXX); trap 'rm -rf "$OUT"' EXIT
export PYTHONPATH="$TREE" PYTHONDONTWRITEBYTECODE=1
rc=0
( cd "$TREE" && $PY -m pytest -q -p no:cacheprovider --timeout=900 --continue-on-collection-errors --junitxml="$OUT/p.xml" >"$OUT/p.log" 2>&1 )
$PY - "$OUT/p.xml" <<'PYEOF' || rc=1
import json, sys, xml.etree.ElementTree as ET
want = set(json.load(open('/verif/tools/mut/stable_pass.json')))
passed = {f"{tc.get('classname')}::{tc.get('name')}" for tc in ET.parse(sys.argv[1]).getroot().iter('testcase') if not list(tc)}
missing = sorted(want - passed)
print(f"root-run suite: {len(want & passed)}/{len(want)} required tests pass")
for m in missing: print("  NOW FAILING:", m)
sys.exit(1 if missing else 0)
PYEOF
declare -A EXPECT=( [exporters_tests]=11 [lisp_parsers_tests]=86 [models_tests]=141 [multi_agent_tests]=32 )
for d in exporters_tests lisp_parsers_tests models_tests multi_agent_tests; do
  r=$(cd "$TREE/tests/$d" && $PY -m pytest --rootdir="$TREE" -q -p no:cacheprovider . 2>&1 | tail -1)
  n=$(echo "$r" | sed -n 's/.* \([0-9]\+\) passed.*/\1/p')
  echo "tests/$d: ${n:-0} passed (clean tree: ${EXPECT[$d]})   [$r]"
  [ "${n:-0}" -ge "${EXPECT[$d]}" ] || rc=1
done
[ $rc -eq 0 ] && echo "TESTS OK (no regression)" || echo "TESTS REGRESSED"
exit $rc
