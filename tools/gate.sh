#!/bin/bash
# Test gate for a tree of pddl_plus_parser: the pinned baseline (63 stable tests must pass) and the
# wider suite (every tests/<dir> run with that dir as cwd; 273 tests on the pinned commit).
# usage: tools/gate.sh [tree]   (default /repo).  Exit 0 iff both are green.
TREE=${1:-/repo}
PY=/venv/bin/python
OUT=$(mktemp -d /tmp/gate.XXXXXX)
trap 'rm -rf "$OUT"' EXIT
export PYTHONPATH="$TREE"
export PYTHONDONTWRITEBYTECODE=1
rc=0
( cd "$TREE" && $PY -m pytest -q -p no:cacheprovider --timeout=900 --continue-on-collection-errors \
    --junitxml="$OUT/pinned.xml" >"$OUT/pinned.log" 2>&1 )
$PY - "$OUT/pinned.xml" <<'EOF' || rc=1
import json, sys, xml.etree.ElementTree as ET
want = set(json.load(open('/root/.vp/BASELINE.json'))['stable_pass'])
passed = set()
for tc in ET.parse(sys.argv[1]).getroot().iter('testcase'):
    if not list(tc):
        passed.add(f"{tc.get('classname')}::{tc.get('name')}")
missing = sorted(want - passed)
print(f"pinned: {len(want & passed)}/{len(want)} stable tests pass")
for m in missing: print("  MISSING", m)
sys.exit(1 if missing else 0)
EOF
total=0
ALLOW=/verif/tools/wider_expected_failures.txt
for d in "$TREE"/tests/*/; do
  (cd "$d" && $PY -m pytest --rootdir="$TREE" -q -p no:cacheprovider . >"$OUT/w.log" 2>&1)
  r=$(tail -1 "$OUT/w.log")
  echo "wider $(basename $d): $r"
  for f in $(grep -E '^(FAILED|ERROR) ' "$OUT/w.log" | awk '{print $2}'); do
    if grep -qxF "$f" "$ALLOW"; then echo "  expected failure (malformed test input): $f"; total=$((total + 1));
    else echo "  UNEXPECTED FAILURE: $f"; rc=1; fi
  done
  n=$(echo "$r" | sed -n 's/.* \([0-9]\+\) passed.*/\1/p'); total=$((total + ${n:-0}))
done
echo "wider total passed or expected: $total (pinned commit: 273)"
[ "$total" -ge 273 ] || rc=1
exit $rc
