#!/bin/bash
# Regression pass over the seeded changes of the given variants (letters) against the check of their own property as
# committed now; demo / tests / cross-firing come from the round's baseline (tools/baseline_round.sh).
# usage: tools/final_pass3.sh <streams> <variant>...      e.g. tools/final_pass3.sh 5 O P
N=$1; shift
cd /verif
ids=$(for v in "$@"; do ls seeded | grep -- "-$v\$"; done)
run_stream() {
  k=$1; i=0
  for id in $ids; do
    if [ $((i % N)) -eq $k ]; then
      prop=${id%%-*}
      tools/eval_mutant.py "$id" seeded/$id/patch.diff --checks "$prop" --jobs 1 --workers 4
    fi
    i=$((i+1))
  done
}
for k in $(seq 0 $((N-1))); do run_stream $k > /tmp/final_pass3_$k.log 2>&1 & done
wait
cat /tmp/final_pass3_*.log | grep fired | sort
