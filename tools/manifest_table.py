ENGINES = [
    {"name": "pv.runner", "path": "/verif/pv/runner.py", "serves_properties": ["C%02d" % i for i in range(1, 21)],
     "kind_free_text": "sharded bounded-exhaustive case runner: enumerates a finite space completely, runs every case on the real code, compares with the reference model (pv.refsem / pv.sexp / pv.polyalg), matches known findings, re-runs the first cases in a fresh process, writes evidence and replay files"},
    {"name": "pv.permsched", "path": "/verif/pv/permsched.py", "serves_properties": ["C02", "C03", "C08"],
     "kind_free_text": "stateless deviation-bounded DFS over the iteration orders of the library's hash sets (harness-side PermSet seam, site-uniform schedules)"},
    {"name": "pv.threadsched", "path": "/verif/pv/threadsched.py", "serves_properties": ["C07"],
     "kind_free_text": "cooperative scheduler for real threads (sys.settrace line events + per-thread semaphores), preemption-bounded exhaustive schedule exploration"},
    {"name": "pv.checks.c07 (BFS)", "path": "/verif/pv/checks/c07.py", "serves_properties": ["C07"],
     "kind_free_text": "explicit-state breadth-first search over API event histories; worlds rebuilt by replay on fresh real objects, de-duplicated on a canonical digest; purity invariant in every world"},
]
NOTES = ("Bounded-exhaustive model checking of the real library against an independent reference interpreter; "
         "see DESIGN.md. Exit 0 = held on everything explored, 1 = VIOLATION line(s), 2 = harness error.")
NOT_YET = {}
CHECKS["C11"] = dict(
    text="Every token tree up to the node bound (usual PDDL atoms and atoms with other printable characters), under every layout/comment/case deviation combination up to the deviation bound and through both entry points, plus every single-parenthesis fault and repeated parse() calls on one tokenizer object, is run on the real tokenizer and compared with the generating tree: an exhaustive enumeration of the input-shape space in which each defect class of a reader (token merge/split, comment handling, truncation) has a smallest witness.",
    note="trusted: the tree generator/renderer and pv.sexp (cross-checked against each other on every text); alphabets and bounds as stated in evidence.rule",
    technique="bounded-exhaustive enumeration of token trees x layout deviations x parenthesis faults against a generating-tree oracle",
)
_REF = ("trusted: pv.sexp + pv.refsem (reference reader / PDDL 2.1 level-2 semantics, self-tested by pv.selftest), the "
        "generators, the comparison code; bounds and alphabets as stated in evidence.rule; pv.absmap only attributes a "
        "behavioural disagreement between parser and evaluator, never grounds one")
CHECKS["C01"] = dict(
    text="Every domain text of the bounded grammar (in-fragment corpus, out-of-fragment table, declaration variants, 4 layouts) is parsed by the real parser; its vocabulary and, over every call and every state of the program's relevant universe, the meaning of what was parsed are compared with an independent reading of the same text. A small-scope exhaustive enumeration is the right level: each way a parser can drop, negate or re-arity a construct has a witness with <= 3 literals and <= 3 objects.",
    note=_REF, technique="bounded-exhaustive program x state x call enumeration; parse result vs independent reference reading of the source text")
CHECKS["C02"] = dict(
    text="Every precondition of the bounded grammar x every type-correct call x every state of the relevant universe x operand-iteration orders (deviation-bounded DFS over set orders), object-declaration orders and one Operator re-used over successive states, and calls on constants asked with the empty object table of a problem that declares no object, is queried on the real Operator and compared with the reference truth value: full truth tables instead of spot facts.",
    note=_REF, technique="bounded-exhaustive formula x state x call enumeration + deviation-bounded exploration of set-iteration orders, reference-model oracle")
CHECKS["C03"] = dict(
    text="Every effect program of the bounded grammar x every applicable consistent (state, call) x effect-collection orders, object-declaration orders one Operator re-used over successive states (with refused applications in between) and over its own successors, and the skip_validation / allow_inapplicable_actions switches on applicable actions, is applied on the real Operator; the whole serialized successor (frame included) is compared with the reference successor, and every explored order must give that same state; plus every sequence of 3-4 calls of a nine-schema domain whose schemas type the same facts by narrower and wider parameters, step by step against the reference.",
    note=_REF, technique="bounded-exhaustive program x state x call enumeration + deviation-bounded exploration of effect-set iteration orders, reference-model oracle")
CHECKS["C08"] = dict(
    text="Every generated in-fragment program and every shipped domain file goes through export -> parse -> export -> parse under every explored iteration order of the exporter's sets; vocabulary, structure and the implementation's own behaviour table before and after are compared.",
    note=_REF + "; differential oracle (implementation vs implementation) for behaviour", technique="bounded-exhaustive round-trip enumeration with differential behaviour tables and set-order exploration")
CHECKS["C18"] = dict(
    text="Every program of the bounded corpus (incl. twin literals that a permutation maps onto one another) x every renaming of the menu (fresh, all permutations, chains, partial; maps listed in signature order and backwards) is renamed with the real change_signature and its full behaviour table is compared with the untouched parse and the reference.",
    note=_REF, technique="bounded-exhaustive program x renaming x state x call enumeration, differential + reference oracle")
CHECKS["C20"] = dict(
    text="Every program of the bounded corpus x every type-correct call is grounded by the real Operator (with and without the problem objects; re-read after the operator was applied) and the reported grounded literals / expressions / typed forms are compared with positional substitution computed from the source text.",
    note=_REF, technique="bounded-exhaustive program x call enumeration, substitution oracle computed from the source text")
CHECKS["C04"] = dict(
    text="All plans (every sequence of type-correct calls, applicable or not) up to the length bound over three mini-domains are executed through TrajectoryExporter.parse_plan (sequence, three plan-file layouts, allow switch) by direct Operator.apply chaining (fresh operators, and one operator object per distinct call with every earlier state re-read after every step), and on ONE State object that is overwritten in place with every step's successor; every triplet, the chaining and the exported text are compared step by step with the reference transition function.",
    note=_REF, technique="exhaustive enumeration of operation sequences (plans) up to a depth bound, reference-model step oracle")
CHECKS["C05"] = dict(
    text="Every problem text of the bounded generator and every single-point corruption of the base problems is parsed by the real ProblemParser; valid ones must be reproduced exactly (and still read the same after the next problem was parsed over the same Domain object), corrupted ones rejected - a confusion matrix by corruption kind instead of a few examples.",
    note=_REF, technique="bounded-exhaustive input enumeration + exhaustive single-point fault injection")
CHECKS["C06"] = dict(
    text="All labelled type forests up to the size bound under every regrouping and every permutation of their declaration lines are parsed; is_sub_type is compared with the reflexive-transitive closure on all pairs, and every use site (facts, fluents, constants, goals, forall conditions and effects) on all (object type, required type) pairs; quantifier ranges also in a domain with one constant per type, under an empty object table and under one object per type, with and without every entity occurring in a root-typed fact.",
    note=_REF, technique="exhaustive enumeration of type forests x declaration orders x type pairs")
CHECKS["C07"] = dict(
    text="Explicit-state BFS over API event histories on the real objects (worlds rebuilt by replay, de-duplicated on a canonical digest) with a purity invariant evaluated in every world, plus a cooperative scheduler that runs two real threads over the shared domain under every single pre-emption at every library source line; plus one Operator built without an object table driven through every 2-3 event history over 32 states, each answer against a fresh operator: the places where impurity needs a specific history or interleaving to show.",
    note=_REF + "; scheduling points are library source lines (sys.settrace), the GIL makes single dict operations atomic", technique="explicit-state BFS over event histories with invariant checking + preemption-bounded exhaustive thread-schedule exploration of the real code",
    engine="pv.runner + pv.threadsched")
CHECKS["C09"] = dict(
    text="Every valid problem of the bounded generator and every shipped problem/domain pair goes through export -> parse; the re-parsed problem's public attributes and the exported text (read independently) are compared with the original.",
    note=_REF, technique="bounded-exhaustive round-trip enumeration, two independent observations")
CHECKS["C10"] = dict(
    text="Every trajectory produced by all plans up to the length bound (incl. repeated-argument fluents, zero-arity atoms, inapplicable steps), joint trajectories with nop entries, and the shipped trajectory files are serialized (export, and export_to_file, which must write the same text) and parsed back with and without the problem's object table; actions, states and chaining are compared; a family with long hyphenated names and states several hundred characters wide sweeps the column of every token.",
    note=_REF, technique="exhaustive enumeration of plan histories up to a depth bound, round-trip oracle")
CHECKS["C14"] = dict(
    text="Every state of a small universe is built along several routes (parsers, copies, successors); == is compared with the reference identity on all ordered pairs x all route pairs, every object is serialized and re-read, every copy is mutated both ways; successors are re-read after the operator that produced them was applied again, the states at the step boundaries of a parsed trajectory are changed in place one at a time, and one TrajectoryParser is used again after a rejected state.",
    note=_REF, technique="exhaustive enumeration of all state pairs of a bounded universe x construction routes")
CHECKS["C12"] = dict(
    text="Every binary expression tree up to the node bound is evaluated on every valuation of a rational grid, directly and through one-condition / one-effect actions, against exact Fraction arithmetic; comparison truth is checked at 0, 1/2, ~1 and 2 tolerances apart at several magnitudes under three EPSILON configurations and printing under three NUMERIC_PRECISION configurations, each configuration in its own interpreter.",
    note=_REF + "; configurations are separate subprocesses (pv.c12_worker)", technique="bounded-exhaustive expression x valuation enumeration + exhaustive enumeration of the configuration space")
CHECKS["C15"] = dict(
    text="ALL valid sequential plans up to the length bound (BFS over applicable actions, replacing random walks) over the multi-agent mini-domains (incl. one whose actions do not name the agent first) are converted by the real PlanConverter in two file layouts with and without the concurrency constraint; the joint plan is checked for action preservation, per-agent order, slot layout, member applicability, semantic non-interference and final state under the reference interpreter.",
    note=_REF + "; one recorded finding (KF-C15-1: interference through atoms is not detected)", technique="exhaustive enumeration of valid operation sequences up to a depth bound, reference-interpreter oracle")
CHECKS["C16"] = dict(
    text="Every joint action (one call or nop per agent, and every call listed in two slots) x every state of the members' joint relevant universe x every slot permutation is applied by the real apply_actions and compared with sequential reference application (defined only for semantically non-interfering members); refusal and the allow switch on every exactly-one-inapplicable case (and on every all-applicable case, where it must change nothing); exported joint trajectories of all 1-2 step joint plans incl. all-idle steps and parameterless members, strict / lenient / strict on one exporter.",
    note=_REF, technique="bounded-exhaustive joint-action x state x member-order enumeration, reference-model oracle")
CHECKS["C17"] = dict(
    text="All splits of a base domain and problem into overlapping per-agent files x every discovery order (Path.glob seam) x dummy-action switch are combined by the real converters; the combination is compared with the set union, re-exported and re-parsed, and the purity of Domain() defaults and of earlier / later parsed domains is checked after every combination; shared goals and facts listed by the two agents in every pair of relative orders are combined exactly once.",
    note=_REF + "; Path.glob is patched on the harness side to enumerate discovery orders", technique="exhaustive enumeration of file splits x discovery orders (environment-order schedules)")
CHECKS["C19"] = dict(
    text="A 145-plan family (step counts at every digit-width boundary x rotations of a (name, arity) alphabet) is rendered as Metric-FF logs under every header x trailer and every layout with <= D deviations, as no-plan logs, and as ENHSP files; status, returned steps and written plan file are compared with the generating plan.",
    note="trusted: the log generator (the generating plan is the specification) and the comparison code", technique="bounded-exhaustive enumeration of log renderings (deviation-bounded layout space) against a generating-plan oracle")
CHECKS["C13"] = dict(
    text="Every expression tree up to the node bound in two coefficient sub-spaces (exactly representable; near-integers and short decimals under every digit setting 0-6) and every set of 1-3 conditions with 0-2 eliminable equalities is simplified through all five entry points of the real library, also in call histories over colliding fluent texts and in edit histories (remove / add a condition between two prints); the output is re-read by the library's own reader, checked to use only binary + - * /, normalised by an independent exact rational-function algebra (pv.polyalg) and evaluated on a rational grid against the input.",
    note="trusted: pv.polyalg (exact Fraction polynomials / rational functions, self-tested with python -m pv.polyalg), pv.gens.exprs, pv.sexp; sympy is only ever run inside the library under test", technique="bounded-exhaustive enumeration of expression trees x coefficient classes x digit settings x entry points, exact-algebra equivalence oracle")
