ENGINES = [
    {"name": "pv.runner", "path": "/verif/pv/runner.py", "serves_properties": [],
     "kind_free_text": "sharded bounded-exhaustive case runner: enumerates a finite space completely, runs every case on the real code, compares with the reference model (pv.refsem / pv.sexp), writes evidence"},
]
NOTES = ("Bounded-exhaustive model checking of the real library against an independent reference interpreter; "
         "see DESIGN.md. Exit 0 = held on everything explored, 1 = VIOLATION line(s), 2 = harness error.")
NOT_YET = {}
CHECKS["C11"] = dict(
    text="Every token tree up to the node bound, under every layout/comment/case deviation combination up to the deviation bound and through both entry points, plus every single-parenthesis fault, is run on the real tokenizer and compared with the generating tree: an exhaustive enumeration of the input-shape space in which each defect class of a reader (token merge/split, comment handling, truncation) has a smallest witness.",
    note="trusted: the tree generator/renderer and pv.sexp (cross-checked against each other on every text); alphabets and bounds as stated in evidence.rule",
    technique="bounded-exhaustive enumeration of token trees x layout deviations x parenthesis faults against a generating-tree oracle",
)
