#!/bin/bash
# usage: tools/baseline_round.sh <round-no> <variant> [streams]  -- collect /tmp/mut/Cxx_out/<variant> into seeded/, evaluate each
# against the committed checks (own property + the fast ones; demo; repository tests) and keep the result as the clean baseline
R=$1; V=$2; N=${3:-4}
FAST=C04,C05,C06,C09,C10,C14,C16,C17,C20
cd /verif
tools/collect_round.sh $V
mkdir -p mutants/baseline_round$R
ids=$(ls seeded | grep -- "-$V\$")
run_stream() {
  k=$1; i=0
  for id in $ids; do
    if [ $((i % N)) -eq $k ] && [ ! -s mutants/baseline_round$R/$id.json ]; then
      prop=${id%%-*}
      tools/eval_mutant.py "$id" seeded/$id/patch.diff --checks "$prop,$FAST" --jobs 2 --workers 4 --demo seeded/$id/demo.py --tests
      cp mutants/results/$id.json mutants/baseline_round$R/$id.json
    fi
    i=$((i+1))
  done
}
for k in $(seq 0 $((N-1))); do run_stream $k > /tmp/baseline_${R}_$k.log 2>&1 & done
wait
cat /tmp/baseline_${R}_*.log | grep fired
