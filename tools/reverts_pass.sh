#!/bin/bash
# every reverted fix (mutants/reverts/revert_*.diff) against the check(s) of the property that found the defect
cd /verif
for f in mutants/reverts/revert_*.diff; do
  n=$(basename $f .diff); c=${n#revert_}
  props=$(python3 -c "
import json
ps=set()
for l in open('/verif/known_findings.jsonl'):
    j=json.loads(l)
    if j.get('commit','').startswith('$c'): ps.add(j['property'])
print(','.join(sorted(ps)))")
  [ -z "$props" ] && { echo "$n: no property mapped"; continue; }
  tools/eval_mutant.py $n $f --jobs 2 --workers 5 --checks "$props"
done
