"""debug helper: python tools/dbg.py <ID> [tier] -> histogram of failing cases by tags / first detail"""
import sys, os, json
sys.path.insert(0, '/verif')
os.environ.setdefault("PYTHONHASHSEED", "0")
from collections import Counter
import importlib
mod = importlib.import_module(f"pv.checks.{sys.argv[1].lower()}")
tier = sys.argv[2] if len(sys.argv) > 2 else "quick"
lim = int(sys.argv[3]) if len(sys.argv) > 3 else None
from pv import runner
import multiprocessing as mp
cases = list(mod.cases(tier))
if lim: cases = cases[:lim]
def work(c):
    try:
        r = mod.check_case(c)
        return (c, [f.to_json() for f in r.fails], r.skipped, dict(r.outcomes))
    except Exception as e:
        import traceback
        return (c, [{"clause": "HARNESS", "detail": traceback.format_exc()[-600:], "tags": []}], None, {})
with mp.get_context("fork").Pool(16) as pool:
    res = pool.map(work, cases, chunksize=8)
by = Counter(); ex = {}
for c, fails, sk, oc in res:
    key = None
    if fails:
        key = (fails[0]["clause"], tuple(c.get("tags", [])[:3]))
    elif sk:
        key = ("SKIP:" + sk, tuple(c.get("tags", [])[:3]))
    if key:
        by[key] += 1
        ex.setdefault(key, (c, fails[0]["detail"] if fails else ""))
for k, n in sorted(by.items(), key=lambda x: -x[1]):
    c, d = ex[k]
    print(n, k)
    print("    ", c.get("pre", ""), "|", c.get("eff", ""), "|", c.get("profile", ""))
    print("    ", d[:400])
