#!/bin/bash
# evaluate seeded changes: target check (+demo +tests) only. usage: tools/eval_seeded.sh <id>...
for id in "$@"; do
  prop=${id%%-*}
  tools/eval_mutant.py "$id" seeded/$id/patch.diff --checks $prop --jobs 1 --workers 8 --demo seeded/$id/demo.py --tests
done
